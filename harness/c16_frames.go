package main

// C16, frame-parser part: hostile frame streams fed to a LIVE connection (real Join/serve/decoding
// workers) inside a SUBPROCESS with a memory limit and a wall-clock limit. The "node" is the
// subprocess: an unrecovered panic anywhere kills it, exactly as it would kill a node. Next to the
// victim link the subprocess keeps an unrelated connection (two real endpoints through relays) that
// must keep delivering after every hostile stream.
//
// For every stream the model (Model/Stream `readAll` on the chunks, then Model/Frame `parse` on every
// frame the reader lets through) predicts the outcome class of the victim link — open / closed by
// the reader / terminated after a recovered panic / node crash — and the harness compares.
// Independent oracle: the subprocess survives, the unrelated connection still delivers, and peak
// resident memory grows by no more than a·|input|+b.

import (
	"bufio"
	"bytes"
	"compress/gzip"
	"encoding/binary"
	"encoding/hex"
	"fmt"
	"io"
	"net"
	"os"
	"os/exec"
	"runtime"
	"strconv"
	"strings"
	"time"

	"ergo.services/ergo/gen"
	"ergo.services/ergo/net/proto"
	"ergo.services/ergo/lib"
)

func init() {
	if os.Getenv("VERIF_C16_CHILD") == "frames" {
		c16FramesChild()
		os.Exit(0)
	}
	c16parts = append(c16parts, c16FramesPart)
}

type c16FCase struct {
	Max    int      `json:"max_message_size"`
	Chunks []string `json:"chunks_hex"`
	Note   string   `json:"note"`
	Valid  int      `json:"valid_frames"` // routable frames in the stream (envelope cases only: -1 = not counted)
}

// ---------------------------------------------------------------------------------------------
// child
// ---------------------------------------------------------------------------------------------

func vmHWM() int64 {
	b, err := os.ReadFile("/proc/self/status")
	if err != nil {
		return -1
	}
	for _, l := range strings.Split(string(b), "\n") {
		if strings.HasPrefix(l, "VmHWM:") {
			f := strings.Fields(l)
			if len(f) >= 2 {
				v, _ := strconv.ParseInt(f[1], 10, 64)
				return v // kB
			}
		}
	}
	return -1
}

var c16Probe = func() []byte {
	// a valid SendPID frame carrying the string "probe"
	pay := []byte{0x8d, 0, 5, 'p', 'r', 'o', 'b', 'e'} // placeholder, replaced below by the real encoder
	pay = lib2Encode("probe")
	f := make([]byte, 33, 33+len(pay))
	f[0], f[1], f[7] = 78, 1, 101
	binary.BigEndian.PutUint64(f[8:16], 424242)
	binary.BigEndian.PutUint64(f[25:33], 7)
	f = append(f, pay...)
	binary.BigEndian.PutUint32(f[2:6], uint32(len(f)))
	return f
}

func c16FramesChild() {
	rng := NewRng(99)
	// the unrelated connection
	u, err := w5NewPair(rng, w5Opts{Pool: 1, RelayMode: 1, ImportantA: true, ImportantB: true})
	if err != nil {
		fmt.Println("FATAL", err)
		os.Exit(3)
	}
	probe := c16Probe()
	out := bufio.NewWriter(os.Stdout)
	defer out.Flush()
	sc := bufio.NewScanner(os.Stdin)
	sc.Buffer(make([]byte, 1<<20), 1<<28)
	ucount := int64(0)
	n := 0
	for sc.Scan() {
		w := strings.Fields(sc.Text())
		if len(w) != 3 && len(w) != 4 {
			continue
		}
		wantRoutes := -1 // number of routes the stream must produce, when known
		if len(w) == 4 {
			wantRoutes, _ = strconv.Atoi(w[3])
		}
		max, _ := strconv.Atoi(w[0])
		expectProbe := w[2] == "1" // the model says the link is open with nothing half-read: the probe must be routed
		var chunks [][]byte
		if w[1] != "-" {
			for _, h := range strings.Split(w[1], ",") {
				b, _ := hex.DecodeString(h)
				chunks = append(chunks, b)
			}
		}
		hwm0 := vmHWM()
		var ms0, ms1 runtime.MemStats
		runtime.ReadMemStats(&ms0)
		core := &w5Core{name: "b@w5", creation: 2002}
		lg := &w5Log{}
		conn, err := w5NewConn(core, lg, "a@w5", 1001, w5Opts{Pool: 1, MaxBrecv: max, ImportantB: true}, false)
		if err != nil {
			fmt.Println("FATAL", err)
			os.Exit(3)
		}
		v1, v2 := net.Pipe()
		go io.Copy(io.Discard, v1) // whatever the victim writes back (acknowledgements)
		conn.Join(v2, "w5", nil, nil)
		closed := false
		for _, ch := range chunks {
			v1.SetWriteDeadline(time.Now().Add(2 * time.Second))
			if _, err := v1.Write(ch); err != nil {
				closed = true
				break
			}
		}
		// let the decoding workers finish: when the number of routes is known, wait for it (unpacking an envelope on a
		// loaded machine can take longer than the calm period below); otherwise until the count has been calm
		last := core.Count()
		for i := 0; i < 200; i++ {
			time.Sleep(300 * time.Microsecond)
			c := core.Count()
			if c == last && i >= 3 && (wantRoutes < 0 || c >= int64(wantRoutes) || i >= 150) {
				break
			}
			last = c
		}
		if wantRoutes >= 0 {
			for i := 0; i < 8000 && core.Count() < int64(wantRoutes); i++ {
				time.Sleep(250 * time.Microsecond) // up to 2 s more
			}
		}
		routed := core.Count()
		// probe the victim link: still reading and routing?
		probeOK := false
		if !closed {
			// generous limits: a stalled goroutine on a loaded machine must not look like a closed or stuck link
			v1.SetWriteDeadline(time.Now().Add(3 * time.Second))
			if _, err := v1.Write(probe); err != nil {
				closed = true
			} else {
				limit := 80 // 20 ms when the probe is expected to be swallowed as the body of an incomplete frame
				if expectProbe {
					limit = 12000 // 3 s
				}
				for i := 0; i < limit; i++ {
					if core.Count() > routed {
						probeOK = true
						break
					}
					time.Sleep(250 * time.Microsecond)
				}
			}
		}
		v1.Close()
		conn.Terminate(nil)
		// the unrelated connection must still deliver
		ucount++
		uerr := u.A.conn.SendPID(gen.PID{Node: "a@w5", ID: uint64(1000 + n), Creation: 1001}, gen.PID{Node: "b@w5", ID: 9, Creation: 2002}, gen.MessageOptions{}, "still here")
		uok := uerr == nil && u.waitRoutes(u.B.core, ucount, 3*time.Second, 3*time.Second)
		// allocation and time of the decoding worker, measured synchronously on every complete frame of the stream
		// (the live workers above run asynchronously and may still be busy)
		var all []byte
		for _, ch := range chunks {
			all = append(all, ch...)
		}
		fs, _ := w5SplitFrames(all)
		runtime.ReadMemStats(&ms0)
		t0 := time.Now()
		for _, f := range fs {
			if max > 0 && len(f) > max {
				break
			}
			if f[0] != 78 || f[1] != 1 {
				break
			}
			core2 := &w5Core{name: "b@w5", creation: 2002}
			conn2, err := w5NewConn(core2, &w5Log{}, "a@w5", 1001, w5Opts{Pool: 1, MaxBrecv: max}, false)
			if err == nil {
				proto.VerifHandleFrame(conn2, f)
			}
		}
		syncMs := time.Since(t0).Milliseconds()
		runtime.ReadMemStats(&ms1)
		fmt.Fprintf(out, "case %d closed=%v probe=%v routed=%d recovered=%d errs=%d uok=%v hwm_kb=%d alloc_kb=%d sync_ms=%d\n", n, closed, probeOK, routed, len(lg.Panics()), len(lg.Errs()), uok, vmHWM()-hwm0, (ms1.TotalAlloc-ms0.TotalAlloc)/1024, syncMs)
		out.Flush()
		n++
	}
}

// ---------------------------------------------------------------------------------------------
// parent
// ---------------------------------------------------------------------------------------------

func c16Hdr(l uint32, order, typ byte) []byte {
	f := []byte{78, 1, 0, 0, 0, 0, order, typ}
	binary.BigEndian.PutUint32(f[2:6], l)
	return f
}

func c16GenCase(rng *Rng) c16FCase {
	max := 0
	if rng.Chance(1, 4) {
		max = 64 + rng.Intn(4000)
	}
	var stream []byte
	note := ""
	nvalid := 0
	valid := func() []byte { // a valid frame that gets routed
		f := append([]byte(nil), c16Probe()...)
		binary.BigEndian.PutUint64(f[8:16], rng.U64())
		return f
	}
	if rng.Chance(1, 2) {
		for i := rng.Intn(3); i >= 0; i-- {
			stream = append(stream, valid()...)
			nvalid++
		}
	}
	types := []byte{101, 102, 103, 104, 105, 106, 107, 121, 122, 123, 124, 129, 130, 181, 182, 183, 184, 185, 186, 199, 200, 201, 202, 203, 0, 255}
	switch rng.Intn(10) {
	case 0: // length field below the header size
		l := uint32(rng.Intn(8))
		stream = append(stream, c16Hdr(l, byte(rng.Intn(3)), types[rng.Intn(len(types))])...)
		note = fmt.Sprintf("len=%d", l)
	case 1: // oversized
		l := uint32(1<<31 + rng.Intn(1<<20))
		if max > 0 {
			l = uint32(max + 1)
		}
		stream = append(stream, c16Hdr(l, 0, 101)...)
		stream = append(stream, make([]byte, rng.Intn(100))...)
		note = "oversized"
	case 2:
		f := valid()
		f[rng.Intn(2)] ^= byte(1 + rng.Intn(255))
		stream = append(stream, f...)
		note = "magic/version"
	case 3, 4: // truncated per-type fields: header + 0..70 bytes
		t := types[rng.Intn(19)]
		n := 8 + rng.Intn(70)
		f := make([]byte, n)
		for i := range f {
			f[i] = byte(rng.U64())
		}
		copy(f, c16Hdr(uint32(n), byte(rng.Intn(256)), t))
		stream = append(stream, f...)
		note = fmt.Sprintf("short-fields type=%d len=%d", t, n)
	case 5: // compressed envelope with hostile content
		var z bytes.Buffer
		inner := valid()
		switch rng.Intn(5) {
		case 0: // decompresses to fewer than 8 bytes
			inner = inner[:rng.Intn(8)]
			note = "z-tiny"
		case 1: // declared size differs
			note = "z-size-mismatch"
		case 2:
			note = "z-garbage"
		case 3: // nested envelope
			note = "z-valid"
		default:
			note = "z-unknown-type"
		}
		gw := gzip.NewWriter(&z)
		gw.Write(inner)
		gw.Close()
		body := z.Bytes()
		if note == "z-garbage" {
			body = make([]byte, 5+rng.Intn(40))
			for i := range body {
				body[i] = byte(rng.U64())
			}
		}
		f := c16Hdr(0, 0, 200)
		ct := byte(102) // gzip
		if note == "z-unknown-type" {
			ct = byte(rng.Intn(100))
		}
		f = append(f, ct)
		var dl [4]byte
		declared := uint32(len(inner))
		if note == "z-size-mismatch" {
			declared = uint32(rng.Intn(70000))
			if declared == uint32(len(inner)) {
				declared++
			}
		}
		binary.BigEndian.PutUint32(dl[:], declared)
		f = append(f, dl[:]...)
		f = append(f, body...)
		binary.BigEndian.PutUint32(f[2:6], uint32(len(f)))
		stream = append(stream, f...)
	case 6: // random bytes
		g := make([]byte, 1+rng.Intn(200))
		for i := range g {
			g[i] = byte(rng.U64())
		}
		stream = append(stream, g...)
		note = "random"
	case 7: // header only, then silence
		stream = append(stream, c16Hdr(uint32(100+rng.Intn(1000)), 0, 101)...)
		note = "incomplete"
	case 8: // valid header, body of another type's layout
		f := valid()
		f[7] = types[rng.Intn(len(types))]
		if f[7] == 200 {
			f[8] = byte(rng.Intn(100)) // unknown compression id: the declared-length region is the listed finding D27
		}
		stream = append(stream, f...)
		note = fmt.Sprintf("retyped=%d", f[7])
	default:
		f := valid()
		cut := 8 + rng.Intn(len(f)-8)
		f = f[:cut]
		binary.BigEndian.PutUint32(f[2:6], uint32(cut))
		stream = append(stream, f...)
		note = "truncated-valid"
	}
	if rng.Chance(1, 3) {
		stream = append(stream, valid()...)
		note += "+valid-after"
		nvalid++
	}
	if strings.HasPrefix(note, "z-valid") {
		nvalid++ // the wrapped frame itself
	}
	if !strings.HasPrefix(note, "z-") || strings.HasPrefix(note, "z-tiny") {
		nvalid = -1
	}
	var chunks []string
	for _, ch := range c12Cut(rng, stream) {
		if len(ch) > 0 {
			chunks = append(chunks, hexs(ch))
		}
	}
	return c16FCase{Max: max, Chunks: chunks, Note: note, Valid: nvalid}
}

// c16Predict: the model's outcome class for a case: "crash", "closed" (reader error or recovered
// panic → Terminate), or "open"
func c16Predict(cases []c16FCase) ([]string, []int, error) {
	var lines []string
	for _, cs := range cases {
		arg := "-"
		if len(cs.Chunks) > 0 {
			arg = strings.Join(cs.Chunks, ",")
		}
		lines = append(lines, fmt.Sprintf("read %d %s", cs.Max, arg))
	}
	outs, err := ModelParallel("stream", lines, 8)
	if err != nil {
		return nil, nil, err
	}
	res := make([]string, len(cases))
	rest := make([]int, len(cases)) // bytes of an incomplete frame the reader keeps waiting on
	var plines []string
	var pidx []int
	for i, o := range outs {
		w := strings.Fields(o)
		if len(w) != 2 {
			return nil, nil, fmt.Errorf("stream driver: %q", o)
		}
		if strings.HasPrefix(w[0], "more:") {
			rest[i], _ = strconv.Atoi(w[0][5:])
		}
		switch {
		case w[0] == "closed:crash":
			res[i] = "crash"
		case strings.HasPrefix(w[0], "closed:"):
			res[i] = "closed"
		default:
			res[i] = "open"
		}
		if res[i] == "crash" || w[1] == "-" {
			continue
		}
		// frames that reached the decoding workers
		var stream []byte
		for _, h := range cases[i].Chunks {
			b, _ := hex.DecodeString(h)
			stream = append(stream, b...)
		}
		pos := 0
		for _, ls := range strings.Split(w[1], ",") {
			l, _ := strconv.Atoi(ls)
			if pos+l > len(stream) {
				break
			}
			f := stream[pos : pos+l]
			pos += l
			if len(f) < 8 {
				// only possible without the length guard in read(): `switch buf.B[7]` panics in the worker (recovered)
				if res[i] == "open" {
					res[i] = "closed"
				}
				continue
			}
			if f[7] == 200 {
				continue // envelope content: outside the frame model (checked for survival only)
			}
			plines = append(plines, "parse "+hexs(f))
			pidx = append(pidx, i)
		}
	}
	pouts, err := ModelParallel("frame", plines, 8)
	if err != nil {
		return nil, nil, err
	}
	for j, o := range pouts {
		if strings.HasPrefix(o, "recovered") && res[pidx[j]] == "open" {
			res[pidx[j]] = "closed" // recovered panic → connection terminated
		}
	}
	return res, rest, nil
}

func c16FramesPart(c *Ctx) {
	r := c.R
	if r.Rule != "" {
		r.Rule += " || "
	}
	r.Rule += "frames: hostile stream (short length field | oversized | wrong magic/version | truncated per-type fields | hostile compression envelope | random | retyped | incomplete, optionally between valid frames, PRNG segmentation) fed to a live connection in a subprocess -> outcome class vs Stream.readAll+Frame.parse; survival of the process and of an unrelated connection; peak RSS growth; non-trivial = the stream is refused, dropped or recovered (not plainly routed)"
	n := c.N(500, 8000)
	var cases []c16FCase
	// directed: the D12 witnesses first
	for l := 0; l < 8; l++ {
		cases = append(cases, c16FCase{Chunks: []string{hexs(c16Hdr(uint32(l), 0, 101))}, Note: fmt.Sprintf("directed len=%d", l)})
	}
	cases = append(cases, c16FCase{Chunks: []string{"4e01", "000000", "03", "0065"}, Note: "directed len=3 split"})
	for i := 0; i < n; i++ {
		cases = append(cases, c16GenCase(c.Rng))
	}
	pred, rest, err := c16Predict(cases)
	if err != nil {
		r.Disagree("c16-frames-driver", err.Error(), nil)
		return
	}
	next := 0
	restarts := 0
	crashes := 0
	for next < len(cases) && restarts < 12 {
		ep := make([]bool, len(cases)-next)
		for i := range ep {
			ep[i] = pred[next+i] == "open" && rest[next+i] == 0 && !strings.HasPrefix(cases[next+i].Note, "z-")
		}
		got, stderr, died := c16RunChild(c, cases[next:], ep)
		for i, g := range got {
			cs := cases[next+i]
			class := "open"
			if g["closed"] == "true" {
				class = "closed"
			}
			rec, _ := strconv.Atoi(g["recovered"])
			if rec > 0 {
				class = "closed"
			}
			r.Case("F|"+cs.Note+"|"+class+"|"+fmt.Sprint(len(cs.Chunks)), class != "open" || g["errs"] != "0")
			r.Count("frames:" + strings.Fields(cs.Note + " ?")[0])
			r.Count("frames:class:" + class)
			if i == 0 && next == 0 {
				r.Sample(map[string]interface{}{"part": "frames", "case": cs, "model": pred[next+i], "impl": g})
			}
			if g["uok"] != "true" {
				r.Violation("C16-frames-unrelated", "after a hostile stream on one link an unrelated connection stopped delivering", cs)
			}
			if class == "open" && g["probe"] != "true" && ep[i] {
				r.Violation("C16-frames-stuck", "the victim link stays open but no longer routes a valid frame", cs)
			}
			c16CheckAlloc(c, cs, g)
			// hostile envelopes (size mismatch, garbage, unknown compression id) are ignored, a well-formed
			// one is unpacked and routed; the valid frames around them are routed as usual
			if cs.Valid >= 0 && class == "open" && (cs.Max == 0 || cs.Max > 200) {
				if n, _ := strconv.Atoi(g["routed"]); n != cs.Valid {
					r.Violation("C16-frames-envelope", fmt.Sprintf("stream with %d routable frames around a hostile/valid envelope produced %d routes", cs.Valid, n), cs)
				}
				r.Count("frames:envelope-route-count-checked")
			}
			if pred[next+i] == "crash" {
				r.Disagree("frames-class", "model predicts an unrecovered panic, the process survived", cs)
			} else if pred[next+i] != class && !strings.HasPrefix(cs.Note, "z-") {
				// envelope content is outside the frame model (class checked only for survival); an
				// incomplete frame leaves the link open and the probe is swallowed as its body
				r.Disagree("frames-class", fmt.Sprintf("model: %s, implementation: %s (%v)", pred[next+i], class, g), cs)
			}
		}
		next += len(got)
		if !died {
			break
		}
		// the child died while handling cases[next]
		crashes++
		restarts++
		if next < len(cases) {
			cs := cases[next]
			first := stderr
			if i := strings.Index(first, "\ngoroutine"); i > 0 {
				first = first[:i]
			}
			if len(first) > 300 {
				first = first[:300]
			}
			sig := "C16-frames-crash"
			r.Violation(sig, fmt.Sprintf("the process (node) died while a link was fed a hostile stream [%s]: %s; model predicted: %s", cs.Note, strings.TrimSpace(first), pred[next]), cs)
			if pred[next] != "crash" {
				r.Disagree("frames-class", "process died, the model predicts "+pred[next], cs)
			}
			next++
		}
	}
	r.CountN("frames:node-crashes", crashes)
	// listed finding C16/D27: the compressed receive case allocates the DECLARED length up front.
	// Witness replayed in a subprocess of its own: 13 bytes (LZW id, declared 16 MiB; 0xFFFFFFFF allocates 8 GiB in total and keeps a worker busy for over a minute).
	w := c16FCase{Chunks: []string{"4e010000000d00c86401000000"}, Note: "directed z-alloc: lzw envelope of 13 bytes declaring 16 MiB"}
	got, _, _ := c16RunChild(c, []c16FCase{w}, []bool{true})
	if len(got) == 1 {
		r.Case("F|"+w.Note, true)
		c16CheckAlloc(c, w, got[0])
		if got[0]["uok"] != "true" {
			r.Violation("C16-frames-unrelated", "after the allocation witness an unrelated connection stopped delivering", w)
		}
	} else {
		r.Violation("C16-frames-crash", "the process died on the allocation witness", w)
	}
}

// c16CheckAlloc: allocation (bytes allocated while the stream was handled) and peak resident growth
// against the budget of Model/Envelope.allocBudget: 16 bytes per input byte + 32 MiB.
func c16CheckAlloc(c *Ctx, cs c16FCase, g map[string]string) {
	hwm, _ := strconv.ParseInt(g["hwm_kb"], 10, 64)
	alloc, _ := strconv.ParseInt(g["alloc_kb"], 10, 64)
	size := 0
	for _, h := range cs.Chunks {
		size += len(h) / 2
	}
	budget := int64(32*1024 + 16*size/1024)
	if alloc > budget || hwm > budget {
		c.R.Violation("C16-frames-alloc", fmt.Sprintf("%d kB allocated (peak resident memory +%d kB) while handling a %d-byte stream", alloc, hwm, size), cs)
	}
}

// c16RunChild feeds the cases to a fresh subprocess; returns the per-case results it managed to
// print, its stderr, and whether it died before finishing.
func c16RunChild(c *Ctx, cases []c16FCase, expectProbe []bool) ([]map[string]string, string, bool) {
	cmd := exec.Command(os.Args[0])
	cmd.Env = append(os.Environ(), "VERIF_C16_CHILD=frames", "GOMEMLIMIT=1GiB", "GOTRACEBACK=single")
	var in bytes.Buffer
	for i, cs := range cases {
		arg := "-"
		if len(cs.Chunks) > 0 {
			arg = strings.Join(cs.Chunks, ",")
		}
		ep := 0
		if i < len(expectProbe) && expectProbe[i] {
			ep = 1
		}
		fmt.Fprintf(&in, "%d %s %d %d\n", cs.Max, arg, ep, cs.Valid)
	}
	cmd.Stdin = &in
	var out, errb bytes.Buffer
	cmd.Stdout = &out
	cmd.Stderr = &errb
	done := make(chan error, 1)
	if err := cmd.Start(); err != nil {
		return nil, err.Error(), true
	}
	go func() { done <- cmd.Wait() }()
	var werr error
	select {
	case werr = <-done:
	case <-time.After(time.Duration(60+len(cases)/4) * time.Second):
		cmd.Process.Kill()
		werr = fmt.Errorf("wall-clock limit")
		<-done
	}
	var res []map[string]string
	for _, l := range strings.Split(out.String(), "\n") {
		if !strings.HasPrefix(l, "case ") {
			continue
		}
		m := map[string]string{}
		for _, kv := range strings.Fields(l)[2:] {
			if j := strings.Index(kv, "="); j > 0 {
				m[kv[:j]] = kv[j+1:]
			}
		}
		res = append(res, m)
	}
	died := werr != nil || len(res) < len(cases)
	se := errb.String()
	if werr != nil && se == "" {
		se = werr.Error()
	}
	return res, se, died
}

func init() { c16parts = append(c16parts, c16Decompress) }

// c16Decompress: the three unpack functions of the compressed receive case, called directly with hostile declared
// lengths (0, understated, overstated, exact) around well-formed and damaged streams: each call returns (a value or an
// error) within two seconds — a worker that spins on a frame never serves its queue again — and only the exact length
// of an intact stream yields the original bytes.
func c16Decompress(c *Ctx) {
	r := c.R
	type codec struct {
		name string
		comp func(*lib.Buffer, uint) (*lib.Buffer, error)
		dec  func(*lib.Buffer, uint) (*lib.Buffer, error)
	}
	codecs := []codec{
		{"gzip", func(b *lib.Buffer, p uint) (*lib.Buffer, error) { return lib.CompressGZIP(b, p, 0) }, lib.DecompressGZIP},
		{"zlib", lib.CompressZLIB, lib.DecompressZLIB},
		{"lzw", lib.CompressLZW, lib.DecompressLZW},
	}
	n := c.N(40, 600)
	for i := 0; i < n; i++ {
		cd := codecs[i%3]
		plain := make([]byte, 1+c.Rng.Intn(3000))
		for j := range plain {
			plain[j] = byte(c.Rng.Intn(7)) // compressible
		}
		src := lib.TakeBuffer()
		src.Append(plain)
		z, err := cd.comp(src, 9)
		if err != nil || z.Len() < 13 {
			r.Count("decompress.inconclusive")
			continue
		}
		packed := append([]byte(nil), z.B...)
		var declared uint32
		kind := []string{"exact", "zero", "understated", "overstated", "damaged"}[c.Rng.Intn(5)]
		switch kind {
		case "exact", "damaged":
			declared = uint32(len(plain))
		case "zero":
			declared = 0
		case "understated":
			declared = uint32(c.Rng.Intn(len(plain)))
		case "overstated":
			declared = uint32(len(plain) + 1 + c.Rng.Intn(5000))
		}
		binary.BigEndian.PutUint32(packed[9:13], declared)
		if kind == "damaged" && len(packed) > 20 {
			packed[13+c.Rng.Intn(len(packed)-13)] ^= byte(1 + c.Rng.Intn(255))
		}
		type res struct {
			out []byte
			err error
		}
		done := make(chan res, 1)
		in := &lib.Buffer{B: append([]byte(nil), packed...)}
		go func() {
			defer func() {
				if p := recover(); p != nil {
					done <- res{nil, fmt.Errorf("PANIC %v", p)}
				}
			}()
			b, e := cd.dec(in, 9)
			if b != nil {
				done <- res{append([]byte(nil), b.B...), e}
			} else {
				done <- res{nil, e}
			}
		}()
		rp := map[string]interface{}{"codec": cd.name, "kind": kind, "unpacked_len": len(plain), "declared": declared, "frame_hex": hexs(packed[:min2(len(packed), 64)])}
		select {
		case x := <-done:
			switch {
			case x.err != nil && strings.HasPrefix(x.err.Error(), "PANIC"):
				r.Violation("C16/decompress-panic", fmt.Sprintf("%s: %v", cd.name, x.err), rp)
			case kind == "exact" && (x.err != nil || !bytes.Equal(x.out, plain)):
				r.Violation("C16/decompress-roundtrip", fmt.Sprintf("%s: an intact stream with the exact length did not unpack to the original (%v)", cd.name, x.err), rp)
			case (kind == "zero" || kind == "understated" || kind == "overstated") && x.err == nil:
				r.Violation("C16/decompress-length-ignored", fmt.Sprintf("%s: declared length %d for %d unpacked bytes was accepted", cd.name, declared, len(plain)), rp)
			}
		case <-time.After(2 * time.Second):
			r.Violation("C16/decompress-hang", fmt.Sprintf("%s: unpacking a %d-byte envelope with declared length %d (%s; real unpacked size %d) did not return within 2 s: the decoding worker of that receive queue is lost", cd.name, len(packed), declared, kind, len(plain)), rp)
			return
		}
		r.Case(fmt.Sprintf("decompress/%s/%s/%d/%d", cd.name, kind, len(plain), declared), kind != "exact")
		r.Count("decompress." + kind)
	}
}

/-
Lemmas about the bit-mask compiler of node/cron_parse.go (model: ErgoVerif.Model.Cron):
which bits the loops set, that the type nibble survives, how the special masks decode.
-/
import ErgoVerif.Model.Cron
namespace ErgoVerif.Cron
open ErgoVerif.Generated.Cron

/-! ### bits -/

theorem testBit_one_shiftLeft (a v : Nat) : (1 <<< a).testBit v = decide (a = v) := by
  rw [Nat.one_shiftLeft, Nat.testBit_two_pow]

/-- bits set by the loop `for x := a; x <= b; x += s` are exactly {v | a ≤ v ≤ b ∧ (v-a) % s = 0} -/
theorem setRange_spec (mask a b s n v : Nat) (hs : 0 < s) (hn : b + 1 ≤ a + n * s) :
    (setRange mask a b s n).testBit v =
      (mask.testBit v || decide (a ≤ v ∧ v ≤ b ∧ (v - a) % s = 0)) := by
  induction n generalizing mask a with
  | zero =>
    simp [setRange]
    intro h1 h2
    omega
  | succ n ih =>
    simp only [setRange]
    split
    · rename_i hab
      rw [ih (mask ||| 1 <<< a) (a + s) (by rw [Nat.succ_mul] at hn; omega)]
      rw [Nat.testBit_or, testBit_one_shiftLeft]
      by_cases hav : a = v
      · subst hav
        simp [hab]
      · simp only [hav, decide_false, Bool.or_false]
        congr 1
        apply decide_eq_decide.mpr
        constructor
        · rintro ⟨h1, h2, h3⟩
          refine ⟨by omega, h2, ?_⟩
          have : v - a = (v - (a + s)) + s := by omega
          rw [this, Nat.add_mod_right]; exact h3
        · rintro ⟨h1, h2, h3⟩
          have hlt : a < v := by omega
          have hge : s ≤ v - a := by
            rcases Nat.lt_or_ge (v - a) s with h | h
            · rw [Nat.mod_eq_of_lt h] at h3; omega
            · exact h
          refine ⟨by omega, h2, ?_⟩
          have : v - a = (v - (a + s)) + s := by omega
          rw [this, Nat.add_mod_right] at h3; exact h3
    · rename_i hab
      have : ¬ (a ≤ v ∧ v ≤ b ∧ (v - a) % s = 0) := by omega
      simp [this]

theorem loopBits_spec (mask a b s v : Nat) (hs : 0 < s) :
    (loopBits mask a b s).testBit v =
      (mask.testBit v || decide (a ≤ v ∧ v ≤ b ∧ (v - a) % s = 0)) := by
  unfold loopBits
  apply setRange_spec _ _ _ _ _ _ hs
  have : b + 1 ≤ (b + 1) * s := Nat.le_mul_of_pos_right _ hs
  omega

theorem and_two_pow_pos (x i : Nat) : decide (x &&& 2 ^ i > 0) = x.testBit i := by
  by_cases h : x.testBit i = true
  · rw [h]
    have : (x &&& 2 ^ i).testBit i = true := by simp [Nat.testBit_and, h]
    have hne : x &&& 2 ^ i ≠ 0 := by
      intro h0; rw [h0] at this; simp at this
    simp; omega
  · have hf : x.testBit i = false := by simpa using h
    rw [hf]
    have : x &&& 2 ^ i = 0 := by
      apply Nat.eq_of_testBit_eq
      intro j
      simp only [Nat.testBit_and, Nat.testBit_two_pow, Nat.zero_testBit]
      by_cases hij : i = j
      · subst hij; simp [hf]
      · simp [hij]
    simp [this]

theorem bitSet_eq_testBit (cm i : Nat) : bitSet cm i = cm.testBit i := by
  unfold bitSet
  rw [Nat.one_shiftLeft]
  exact and_two_pow_pos cm i

/-! ### the type nibble -/

theorem cronMaskType_eq : cronMaskType = (2 ^ 4 - 1) <<< 60 := by decide

theorem cronMaskType_testBit (i : Nat) : cronMaskType.testBit i = decide (60 ≤ i ∧ i < 64) := by
  rw [cronMaskType_eq, Nat.testBit_shiftLeft, Nat.testBit_two_pow_sub_one]
  by_cases h : 60 ≤ i <;> simp [h] <;> omega

/-- two masks that agree on bits 60.. have the same type -/
theorem maskType_congr {x y : Nat} (h : ∀ v, 60 ≤ v → x.testBit v = y.testBit v) : maskType x = maskType y := by
  unfold maskType
  apply Nat.eq_of_testBit_eq
  intro i
  simp only [Nat.testBit_and, cronMaskType_testBit]
  by_cases hi : 60 ≤ i
  · rw [h i hi]
  · have : ¬ (60 ≤ i ∧ i < 64) := by omega
    simp [this]

/-- the default mask of a field is its type shifted to bit 60 -/
def Kind.nibble : Kind → Nat
  | .minute => 10 | .hour => 11 | .day => 12 | .month => 13 | .wday => 14

theorem Kind.mask_eq (k : Kind) : k.mask = k.nibble <<< 60 := by cases k <;> decide

theorem Kind.mask_testBit_low (k : Kind) {v : Nat} (hv : v < 60) : k.mask.testBit v = false := by
  rw [k.mask_eq, Nat.testBit_shiftLeft]
  have : ¬ v ≥ 60 := by omega
  simp [this]

theorem Kind.maskType_mask (k : Kind) : maskType k.mask = k.mask := by cases k <;> decide

theorem Kind.hi_lt (k : Kind) : k.hi < 60 := by cases k <;> decide

/-! ### what the loop over the options leaves in result[0] and behind it -/

/-- the values an option contributes to the bit mask -/
def Item.numDenote (k : Kind) (v : Nat) : Item → Bool
  | .num n => v = n
  | .range a b => a ≤ v && v ≤ b
  | .rangeStep a b s => a ≤ v && v ≤ b && (v - a) % s = 0
  | .starStep s => k.lo ≤ v && v ≤ k.hi && (v - k.lo) % s = 0
  | _ => false

/-- the special mask an option appends -/
def Item.specialMask (k : Kind) : Item → Option Nat
  | .last => some cronMaskTypeLastDM
  | .lastW w => if k = .day then some (cronMaskTypeLastDM ||| w) else some (cronMaskTypeLastDW ||| w)
  | .nth w n => some (cronMaskTypeNDW ||| (w <<< 8) ||| n)
  | _ => none

def Item.isNumeric : Item → Bool
  | .num _ | .range _ _ | .rangeStep _ _ _ | .starStep _ => true
  | _ => false

theorem compileItem_bits (k : Kind) (acc : Acc) (it : Item) (hv : it.valid k = true) (v : Nat) :
    (compileItem k acc it).bits.testBit v = (acc.bits.testBit v || it.numDenote k v) := by
  cases it with
  | num n =>
    simp only [compileItem, Item.numDenote, Nat.testBit_or, testBit_one_shiftLeft]
    congr 1; apply decide_eq_decide.mpr; omega
  | range a b =>
    simp only [compileItem, Item.numDenote]
    rw [loopBits_spec _ _ _ _ _ (by omega)]
    congr 1
    simp [Nat.mod_one]
  | rangeStep a b s =>
    simp only [Item.valid, Bool.and_eq_true, decide_eq_true_eq] at hv
    simp only [compileItem, Item.numDenote]
    rw [loopBits_spec _ _ _ _ _ (by omega)]
    congr 1
    simp [Bool.and_assoc]
  | starStep s =>
    simp only [Item.valid, Bool.and_eq_true, decide_eq_true_eq] at hv
    simp only [compileItem, Item.numDenote]
    rw [loopBits_spec _ _ _ _ _ (by omega)]
    congr 1
    simp [Bool.and_assoc]
  | last => simp [compileItem, Item.numDenote]
  | lastW w => simp only [compileItem, Item.numDenote]; split <;> simp
  | nth w n => simp [compileItem, Item.numDenote]

theorem compileItem_special (k : Kind) (acc : Acc) (it : Item) :
    (compileItem k acc it).special = acc.special ++ (it.specialMask k).toList := by
  cases it <;> simp [compileItem, Item.specialMask]
  split <;> simp

theorem fold_bits (k : Kind) (items : List Item) (hv : ∀ it ∈ items, it.valid k = true) (acc : Acc) (v : Nat) :
    (items.foldl (compileItem k) acc).bits.testBit v = (acc.bits.testBit v || items.any (Item.numDenote k v)) := by
  induction items generalizing acc with
  | nil => simp
  | cons it rest ih =>
    simp only [List.foldl_cons, List.any_cons]
    rw [ih (fun i hi => hv i (List.mem_cons_of_mem _ hi)), compileItem_bits k acc it (hv it List.mem_cons_self)]
    simp [Bool.or_assoc]

theorem fold_special (k : Kind) (items : List Item) (acc : Acc) :
    (items.foldl (compileItem k) acc).special = acc.special ++ items.filterMap (Item.specialMask k) := by
  induction items generalizing acc with
  | nil => simp
  | cons it rest ih =>
    simp only [List.foldl_cons]
    rw [ih, compileItem_special]
    cases h : it.specialMask k <;> simp [List.filterMap_cons, h]

/-- a valid option never touches bits 60.. -/
theorem numDenote_high (k : Kind) (it : Item) (hv : it.valid k = true) {v : Nat} (h : 60 ≤ v) :
    it.numDenote k v = false := by
  have hk := k.hi_lt
  cases it <;> simp only [Item.valid, Bool.and_eq_true, decide_eq_true_eq] at hv <;>
    simp only [Item.numDenote, Bool.and_eq_false_iff, decide_eq_false_iff_not, Bool.false_eq_true] <;>
    first | omega | (simp; omega) | skip

/-- a valid numeric option sets at least the bit of its first value, which is below 60 -/
theorem numDenote_first (k : Kind) (it : Item) (hv : it.valid k = true) (hn : it.isNumeric = true) :
    ∃ v, v < 60 ∧ it.numDenote k v = true := by
  have hk := k.hi_lt
  cases it with
  | num n => exact ⟨n, by simp [Item.valid] at hv; omega, by simp [Item.numDenote]⟩
  | range a b => exact ⟨a, by simp [Item.valid] at hv; omega, by simp [Item.valid] at hv; simp [Item.numDenote]; omega⟩
  | rangeStep a b s =>
    exact ⟨a, by simp [Item.valid] at hv; omega, by simp [Item.valid] at hv; simp [Item.numDenote]; omega⟩
  | starStep s =>
    refine ⟨k.lo, ?_, ?_⟩
    · have : k.lo ≤ k.hi := by cases k <;> decide
      omega
    · have : k.lo ≤ k.hi := by cases k <;> decide
      simp [Item.numDenote, this]
  | last => simp [Item.isNumeric] at hn
  | lastW w => simp [Item.isNumeric] at hn
  | nth w n => simp [Item.isNumeric] at hn

end ErgoVerif.Cron

package main

import (
	"fmt"
	"go/ast"
	"strings"
)

// Generated/Event.lean: does the termination path of a process (unregisterProcess and what it calls in node/node.go)
// touch the subscriber counter of the events the process was subscribed to?

func init() {
	generators = append(generators, generator{name: "Event", run: genEvent, fallback: "namespace ErgoVerif.Gen.Event\ndef terminationUpdatesCounter : Bool := false\nend ErgoVerif.Gen.Event\n"})
}

func genEvent() (string, error) {
	f, err := parseFile("node/node.go")
	if err != nil {
		return "", err
	}
	up := funcDecl(f, "node", "unregisterProcess")
	if up == nil {
		return "", fmt.Errorf("node.unregisterProcess not found")
	}
	// functions reachable in one step from unregisterProcess, in node/node.go
	touches := func(fd *ast.FuncDecl) bool {
		found := false
		ast.Inspect(fd.Body, func(n ast.Node) bool {
			if c, ok := n.(*ast.CallExpr); ok && strings.HasSuffix(selName(c.Fun), "atomic.AddInt32") && len(c.Args) == 2 {
				if strings.HasSuffix(selName(c.Args[0]), ".consumers") {
					found = true
				}
			}
			return !found
		})
		return found
	}
	res := touches(up)
	ast.Inspect(up.Body, func(n ast.Node) bool {
		if c, ok := n.(*ast.CallExpr); ok {
			nm := selName(c.Fun)
			if strings.HasPrefix(nm, "n.") {
				if fd := funcDecl(f, "node", strings.TrimPrefix(nm, "n.")); fd != nil && touches(fd) {
					res = true
				}
			}
		}
		return true
	})
	return fmt.Sprintf("namespace ErgoVerif.Gen.Event\n/-- unregisterProcess decrements eventOwner.consumers for the subscriptions of the terminated process -/\ndef terminationUpdatesCounter : Bool := %s\nend ErgoVerif.Gen.Event\n", leanBool(res)), nil
}

#!/usr/bin/env python3
"""writes MANIFEST.json from checks_config.py (single source of truth)"""
import json, subprocess, sys, os
sys.path.insert(0, os.path.dirname(os.path.abspath(__file__)))
from checks_config import PROPS, NOT_APPLICABLE, HOOK_COMMITS
checks = []
for pid in sorted(PROPS):
    c = PROPS[pid]
    checks.append({
        "property_id": pid,
        "quick_cmd": "./check %s --tier quick" % pid,
        "thorough_cmd": "./check %s --tier thorough" % pid,
        "evidence_file": "/verif/evidence/%s.json" % pid,
        "replay_cmd_template": "./check %s --replay {path}" % pid,
        "engine": "lean4-proof+correspondence",
        "level_claimed": {"category": "proof", "text": c["level_text"], "design_ref": c.get("design_ref", "DESIGN.md §6 " + pid)},
        "level_note": c["level_note"],
        "technique": c["technique"],
    })
m = {
    "version": 1,
    "setup_cmd": "./setup.sh",
    "hooks": {
        "guard": "verif",
        "enable": "go build -tags verif (the harness module replaces ergo.services/ergo => /repo and is built with -tags verif on every run)",
        "baseline_off_cmd": "cd /repo && go test -mod=mod -json -vet=off -count=1 -timeout 25m ./...",
        "source_commits": HOOK_COMMITS,
        "add_only": True,
    },
    "engines": [{
        "name": "lean4-proof+correspondence", "path": "/verif/check",
        "serves_properties": sorted(PROPS),
        "kind_free_text": "Lean 4 theorems over executable models (lean/ErgoVerif), tied to /repo on every run by a regenerating extractor (extract/) and a differential correspondence harness (harness/, built with -tags verif against the working tree) that drives the compiled model driver through a line protocol",
    }],
    "checks": checks,
    "not_applicable": NOT_APPLICABLE,
    "notes": "see DESIGN.md; known_findings.json lists genuine defects that are recorded rather than repaired and the fix: commits",
}
json.dump(m, open(os.path.join(os.path.dirname(os.path.abspath(__file__)), "MANIFEST.json"), "w"), indent=1)
print("MANIFEST.json: %d checks, %d not_applicable" % (len(checks), len(NOT_APPLICABLE)))

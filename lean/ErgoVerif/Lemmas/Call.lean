import ErgoVerif.Model.Call
namespace ErgoVerif.Call

/-- invariant of the caller's bookkeeping -/
structure Inv (s : St) : Prop where
  chan_cap : s.chan.length ≤ cap
  /-- delivered replies are exactly those consumed so far followed by those still buffered (in arrival order) -/
  conserve : s.delivered.reverse = s.consumed.reverse ++ s.chan
  /-- every value returned came out of the channel with the reference of the call that returned it -/
  returned_ok : ∀ r v, (r, Outcome.value v) ∈ s.returned → (⟨r, v⟩ : Reply) ∈ s.consumed ∧ r ∈ s.issued
  returned_issued : ∀ r o, (r, o) ∈ s.returned → r ∈ s.issued
  waiting_issued : ∀ r, s.waiting = some r → r ∈ s.issued
  /-- each call returns at most once: the references of completed calls plus the pending one are the issued ones -/
  count : s.returned.length + (if s.waiting.isSome then 1 else 0) = s.issued.length

theorem inv_init : Inv St.init := by
  constructor <;> simp [St.init, cap]

theorem step_inv (s : St) (o : Op) (h : Inv s) : Inv (step s o) := by
  cases o with
  | call r =>
    simp only [step]
    cases hw : s.waiting with
    | some x => simpa [hw] using h
    | none =>
      simp only
      refine ⟨h.chan_cap, h.conserve, ?_, ?_, ?_, ?_⟩
      · intro r' v hm; obtain ⟨a, b⟩ := h.returned_ok r' v hm; exact ⟨a, by simp [b]⟩
      · intro r' o hm; have := h.returned_issued r' o hm; simp [this]
      · intro r' hr; simp at hr; simp [hr]
      · have := h.count; simp [hw] at this ⊢; omega
  | deliver rp =>
    simp only [step]
    split
    · rename_i hlt
      refine ⟨by simp; simp [cap] at hlt ⊢; omega, ?_, h.returned_ok, h.returned_issued, h.waiting_issued, h.count⟩
      simp [h.conserve]
    · exact ⟨h.chan_cap, h.conserve, h.returned_ok, h.returned_issued, h.waiting_issued, h.count⟩
  | recv =>
    simp only [step]
    cases hw : s.waiting with
    | none => simpa [hw] using h
    | some r =>
      cases hc : s.chan with
      | nil => simpa [hw, hc] using h
      | cons rp rest =>
        simp only
        have hcons := h.conserve
        rw [hc] at hcons
        split
        · rename_i heq
          refine ⟨by have := h.chan_cap; rw [hc] at this; simp at this ⊢; omega, by simp [hcons], ?_, ?_, by simp, ?_⟩
          · intro r' v hm
            simp at hm
            rcases hm with ⟨rfl, rfl⟩ | hm
            · refine ⟨?_, h.waiting_issued _ hw⟩
              have : rp = ⟨rp.ref, rp.val⟩ := rfl
              rw [← heq]; simp
            · obtain ⟨a, b⟩ := h.returned_ok r' v hm; exact ⟨by simp [a], b⟩
          · intro r' o hm
            simp at hm
            rcases hm with ⟨rfl, _⟩ | hm
            · exact h.waiting_issued _ hw
            · exact h.returned_issued r' o hm
          · have := h.count; simp [hw] at this ⊢; omega
        · refine ⟨by have := h.chan_cap; rw [hc] at this; simp at this ⊢; omega, by simp [hcons], ?_, h.returned_issued, ?_, ?_⟩
          · intro r' v hm; obtain ⟨a, b⟩ := h.returned_ok r' v hm; exact ⟨by simp [a], b⟩
          · intro r' hr; exact h.waiting_issued r' (by simpa [hw] using hr)
          · have := h.count; simpa [hw] using this
  | timeout =>
    simp only [step]
    cases hw : s.waiting with
    | none => simpa [hw] using h
    | some r =>
      simp only
      refine ⟨h.chan_cap, h.conserve, ?_, ?_, by simp, ?_⟩
      · intro r' v hm
        simp at hm
        exact h.returned_ok r' v hm
      · intro r' o hm
        simp at hm
        rcases hm with ⟨rfl, _⟩ | hm
        · exact h.waiting_issued _ hw
        · exact h.returned_issued r' o hm
      · have := h.count; simp [hw] at this ⊢; omega

theorem run_inv (ops : List Op) : Inv (runOps ops) := by
  unfold runOps
  suffices ∀ s, Inv s → Inv (ops.foldl step s) from this _ inv_init
  induction ops with
  | nil => intro s h; exact h
  | cons o os ih => intro s h; exact ih _ (step_inv s o h)

end ErgoVerif.Call

import ErgoVerif.Generated.Unreg
import ErgoVerif.Generated.SupShell
import ErgoVerif.Lemmas.SupStep
import ErgoVerif.Lemmas.SupScan
import ErgoVerif.Lemmas.SupOrder
import ErgoVerif.Lemmas.SupLoopSOFO
import ErgoVerif.Lemmas.SupLoopOFO
import ErgoVerif.Lemmas.SupTrackOFO
import ErgoVerif.Lemmas.SupTrackOFO2
import ErgoVerif.Lemmas.SupLoopARFO
/-!
# C08 — supervisor restart semantics by type and strategy

Models: `Model/SupOFO.lean`, `SupARFO.lean`, `SupSOFO.lean` (mirrors of act/supervisor_{ofo,arfo,sofo}.go at the
repaired code: D5, D14, D19 fixed), `Model/SupLoop.lean` (handleAction + exit dispatch + environment).
Rules: `Spec/Sup.lean`.  Tie: harness/c08.go (K2 differential on every run).

Contents
* T9/T10 `C08_*_decision` — for ALL states: the answer to the termination of a child of an enabled spec in
  normal operation is what the documented rule prescribes (Permanent/Transient/Temporary × reason ×
  significant × auto-shutdown × intensity verdict).
* T2 `C08_ofo_isolation` — one-for-one touches only the terminated child's spec and never stops a sibling
  unless the supervisor itself is going down.
* T3/T5 `C08_stop_list`, `C08_rest_prefix_untouched`, `C08_keeporder_one_at_a_time` — all/rest-for-one stops
  exactly the running children of the enabled specs at positions ≥ the restart position, in reverse spec order;
  with KeepOrder one at a time.
* T4 `C08_start_order` — children are started in increasing spec order, skipping running and disabled specs.
* T6 `C08_disabled_stays_down_*`.
* simple-one-for-one, closed system, ALL histories: `C08_sofo_no_panic`, `C08_sofo_children_table`,
  `C08_sofo_all_stopped`, `C08_sofo_no_hang`.
* T7 `C08_every_exit_noticed_once_{ofo,arfo,sofo}` — the glue, all three types, ALL histories.
* one-for-one, closed system, ALL histories: `C08_ofo_no_panic` (no panic, handleAction terminates).
* one-for-one tracking of the children table: `C08_ofo_tracking_*_step` and the closure `C08_all_stopped_ofo_partial`
  (all histories outside the region D26).
* all/rest-for-one WITHOUT KeepOrder, closed system, ALL histories: `C08_no_panic_arfo_closed_partial`.
* refuted full statements (listed findings) with proved counterexamples:
  `C08_no_panic_arfo_full` (D18), `C08_prescribed_set_full` (D25), `C08_all_stopped_ofo_full` (D26),
  and the partial results that do hold.
-/
namespace ErgoVerif.Props.C08
open ErgoVerif ErgoVerif.Sup ErgoVerif.Spec.Sup

/-! ## T9 / T10: the decision table, all states -/

theorem C08_ofo_decision (s : OFO) (name pid : Nat) (r : Reason) (now : Int)
    (hsd : s.shutdown = false) (k : Nat) (c : ChildSpec)
    (hf : (scan name pid 0 s.spec).found = some (k, c)) (hen : c.disabled = false) :
    OFO.Meets (rule false s.restart.strategy r c.significant s.autoshutdown
                (scan name pid 0 s.spec).running.length
                (Window.check s.restarts now s.restart.periodMs s.restart.intensity).2)
      c (scan name pid 0 s.spec) (s.childTerminated name pid r now).1 (s.childTerminated name pid r now).2 :=
  OFO.decision s name pid r now hsd k c hf hen

theorem C08_arfo_decision (s : ARFO) (name pid : Nat) (r : Reason) (now : Int)
    (hm : s.mode = 0) (k : Nat) (c : ChildSpec)
    (hf : (scan name pid 0 s.spec).found = some (k, c)) (hen : c.disabled = false) :
    ARFO.Meets (rule false s.restart.strategy r c.significant s.autoshutdown
                (scan name pid 0 s.spec).running.length
                (Window.check s.restarts now s.restart.periodMs s.restart.intensity).2)
      k r (scan name pid 0 s.spec)
      { s with wait := sdel pid s.wait, spec := (scan name pid 0 s.spec).spec,
               restarts := (Window.check s.restarts now s.restart.periodMs s.restart.intensity).1 }
      (s.childTerminated name pid r now).1 (s.childTerminated name pid r now).2 :=
  ARFO.decision s name pid r now hm k c hf hen

theorem C08_sofo_decision (s : SOFO) (name pid : Nat) (r : Reason) (now : Int)
    (hsd : s.shutdown = false) (c : ChildSpec)
    (hf : findName name s.spec = some c) (hen : c.disabled = false) :
    SOFO.Meets (rule true s.restart.strategy r c.significant false 0
                (Window.check s.restarts now s.restart.periodMs s.restart.intensity).2)
      c { s with pids := s.pids.filter (·.1 ≠ pid), wait := sdel pid s.wait }
      (s.childTerminated name pid r now).1 (s.childTerminated name pid r now).2 :=
  SOFO.decision s name pid r now hsd c hf hen

/-- the rule itself says: Permanent restarts after any termination, Transient only after an abnormal one,
Temporary never (so that the three theorems above are about the right table) -/
theorem C08_rule_strategies (r : Reason) :
    needsRestart .permanent r = true ∧ needsRestart .temporary r = false ∧
    (needsRestart .transient r = true ↔ r ≠ .normal ∧ r ≠ .shutdown) := by
  cases r <;> simp [needsRestart, Reason.quiet]

/-! ## T2: one-for-one isolation -/

/-- in normal operation one-for-one changes nothing but the pid of the spec(s) the exit belongs to, and the
answer is never a request to stop a sibling unless the supervisor is terminating
(the `terminateChildren` answer comes only together with `shutdown = true`) -/
theorem C08_ofo_isolation (s : OFO) (name pid : Nat) (r : Reason) (now : Int) (hsd : s.shutdown = false) :
    (s.childTerminated name pid r now).1.spec =
        s.spec.map (fun c => if hit name pid c then { c with pid := 0 } else c) ∧
    ∀ k c, (scan name pid 0 s.spec).found = some (k, c) → c.disabled = false →
      ∀ a, (s.childTerminated name pid r now).2 = .ok a → a.act = .terminateChildren →
        (s.childTerminated name pid r now).1.shutdown = true := by
  refine ⟨by rw [OFO.spec_after s name pid r now hsd, scan_spec_eq], ?_⟩
  intro k c hf hen a ha hact
  have h := OFO.decision s name pid r now hsd k c hf hen
  generalize rule false s.restart.strategy r c.significant s.autoshutdown
      (scan name pid 0 s.spec).running.length
      (Window.check s.restarts now s.restart.periodMs s.restart.intensity).2 = d at h
  cases d with
  | ignore => simp only [OFO.Meets] at h; rw [h.1] at ha; simp at ha; subst ha; simp at hact
  | restart => simp only [OFO.Meets] at h; rw [h.1] at ha; simp at ha; subst ha; simp at hact
  | giveUp => simp only [OFO.Meets] at h; exact h.2.1
  | stopAll r' =>
    simp only [OFO.Meets] at h
    split at h
    · rw [h.1] at ha; simp at ha; subst ha; simp at hact
    · exact h.2.1

/-! ## T3 / T5: who is stopped for a restart, and in which order -/

/-- the stop list of all/rest-for-one: the running children of the enabled specs at positions ≥ restartI,
in reverse spec order; with KeepOrder only the last of them -/
theorem C08_stop_list (s : ARFO) :
    (ARFO.childrenForTermination s).2 =
      pick s.keeporder ((((s.spec.drop s.restartI).filter stoppable).map (·.pid)).reverse) := by
  unfold ARFO.childrenForTermination
  exact forTermination_eq s.restartI s.keeporder s.spec

/-- rest-for-one: the children before the restart position receive no exit -/
theorem C08_rest_prefix_untouched (s : ARFO) (p : Nat) (h : p ∈ (ARFO.childrenForTermination s).2) :
    ∃ c, c ∈ s.spec.drop s.restartI ∧ c.pid = p ∧ c.disabled = false ∧ p ≠ 0 :=
  stop_targets s p h

theorem C08_keeporder_one_at_a_time (s : ARFO) (h : s.keeporder = true) :
    (ARFO.childrenForTermination s).2.length ≤ 1 :=
  stop_keeporder s h

/-- and the restart position of rest-for-one is the position of the terminated child (all-for-one: unchanged, 0) -/
theorem C08_restart_position (s : ARFO) (k : Nat) (r : Reason) :
    (ARFO.restartStep s k r).1.restartI = if s.rest then k else s.restartI := by
  unfold ARFO.restartStep ARFO.childrenForTermination
  simp only
  split <;> split <;> (try split) <;> simp_all

/-! ## T4: start order -/

theorem C08_start_order (frm : Nat) (l : List ChildSpec) (j : Nat) (c : ChildSpec)
    (h : findStart frm 0 l = some (j, c)) :
    frm ≤ j ∧ l[j]? = some c ∧ c.pid = 0 ∧ c.disabled = false ∧
    ∀ i, i < j → frm ≤ i → ∃ d, l[i]? = some d ∧ (d.pid ≠ 0 ∨ d.disabled = true) := by
  have := findStart_spec frm l 0 j c h
  refine ⟨this.1, by simpa using this.2.2.1, this.2.2.2.1, this.2.2.2.2.1, ?_⟩
  intro i hij hfi
  simpa using this.2.2.2.2.2 i (Nat.zero_le _) hij hfi

/-! ## T6: a disabled spec stays down -/

theorem C08_disabled_stays_down_sofo (s : SOFO) (name pid : Nat) (r : Reason) (now : Int)
    (hsd : s.shutdown = false) (c : ChildSpec) (hf : findName name s.spec = some c) (hdis : c.disabled = true) :
    (s.childTerminated name pid r now).2 = .ok {} :=
  SOFO.disabled_not_restarted s name pid r now hsd c hf hdis

theorem C08_disabled_stays_down_ofo (s : OFO) (name pid : Nat) (r : Reason) (now : Int)
    (hsd : s.shutdown = false) (k : Nat) (c : ChildSpec)
    (hf : (scan name pid 0 s.spec).found = some (k, c)) (hdis : c.disabled = true) :
    (s.childTerminated name pid r now).2 = .ok {} ∨
    (s.childTerminated name pid r now).2 = .ok { act := .terminate, reason := some r } :=
  OFO.disabled_not_restarted s name pid r now hsd k c hf hdis

theorem C08_disabled_stays_down_arfo (s : ARFO) (name pid : Nat) (r : Reason) (now : Int)
    (hm : s.mode = 0) (k : Nat) (c : ChildSpec)
    (hf : (scan name pid 0 s.spec).found = some (k, c)) (hdis : c.disabled = true) :
    (s.childTerminated name pid r now).2 = .ok {} ∨
    (s.childTerminated name pid r now).2 = .ok { act := .terminate, reason := some r } :=
  ARFO.disabled_not_restarted s name pid r now hm k c hf hdis

/-- StartChild on a disabled spec is refused and the restart scan never picks a disabled spec -/
theorem C08_disabled_not_started (s : OFO) (name : Nat) (c : ChildSpec)
    (hf : findName name s.spec = some c) (hdis : c.disabled = true) (hm : s.mode = 0) :
    (s.childSpec name).2 = .err .disabled ∨ (s.childSpec name).2 = .err .strategyActive := by
  cases hs : s.shutdown <;> simp [OFO.childSpec, hm, hf, hdis, hs]

/-- D27 repaired: while a one-for-one supervisor is stopping its children (significant child gone, restart intensity
exceeded, foreign exit) StartChild / AddChild / EnableChild are refused and change nothing -/
theorem C08_ofo_refuses_while_shutting_down (s : OFO) (name : Nat) (sig : Bool) (h : s.shutdown = true) :
    s.childSpec name = (s, .err .strategyActive) ∧ s.childAddSpec name sig = (s, .err .strategyActive) ∧
    s.childEnable name = (s, .err .strategyActive) :=
  ⟨OFO.childSpec_shut s name h, OFO.childAddSpec_shut s name sig h, OFO.childEnable_shut s name h⟩

/-- D19 repaired: DisableChild on a spec whose child is not running disables the spec -/
theorem C08_disable_not_running (s : OFO) (name : Nat) (c : ChildSpec)
    (hf : findName name s.spec = some c) (hen : c.disabled = false) (hp : c.pid = 0) :
    (findName name (s.childDisable name).1.spec).map (·.disabled) = some true := by
  simp only [OFO.childDisable, hf, hen, hp]
  simp only [Bool.false_eq_true, if_false, if_true]
  have : ∀ l : List ChildSpec, findName name l = some c →
      (findName name (updName name (fun c => { c with disabled := true }) l)).map (·.disabled) = some true := by
    intro l
    induction l with
    | nil => simp [findName]
    | cons a t ih =>
      intro h
      simp only [findName] at h
      simp only [updName]
      split
      · simp [findName, *]
      · rename_i hne
        simp only [hne, if_false] at h
        simp [findName, hne, ih h]
  exact this s.spec hf

/-! ## simple-one-for-one: the closed system, all histories -/

def SofoReach (sp : SupSpec) (c : Loop SOFO) : Prop := ∃ ls, run sofoStep (sofoBoot sp) ls = some c

theorem sofoBoot_inv (sp : SupSpec) : SOFO.Inv (sofoBoot sp) := by
  unfold sofoBoot boot
  apply SOFO.afterCall_inv 1 false [] { m := (SOFO.init {} sp).1 } (SOFO.init {} sp)
  · constructor <;> simp [keys]
  · rfl
  · constructor <;> simp [SOFO.init, keys]
  · simp [SOFO.init, SOFO.GoodRes, SOFO.Good, SOFO.Live]
  · simp

theorem sofo_inv {sp : SupSpec} {c : Loop SOFO} (h : SofoReach sp c) : SOFO.Inv c := by
  obtain ⟨ls, hr⟩ := h
  exact run_inv (Inv := SOFO.Inv) (fun s a s' hi hs => SOFO.step_inv 1 s s' a hi hs) (sofoBoot_inv sp) hr

/-- T8 for simple-one-for-one: no reachable panic, and handleAction always finishes -/
theorem C08_sofo_no_panic (sp : SupSpec) (c : Loop SOFO) (h : SofoReach sp c) :
    c.status ≠ .panicked ∧ c.status ≠ .stuck := (sofo_inv h).sane

/-- T7 (the glue): `Supervisor.children` holds exactly the spawned children whose exit has not been handled,
so every exit is handed to the state machine with the right spec name, once -/
theorem C08_sofo_children_table (sp : SupSpec) (c : Loop SOFO) (h : SofoReach sp c) (p : Nat) :
    p ∈ keys c.kids ↔ (p ∈ keys c.alive ∨ p ∈ keys c.inflight) := (sofo_inv h).glue.kids_iff p

/-- no child is forgotten: while not shutting down the machine's table is the children table; a supervisor
that has terminated has no child left, running or unnoticed -/
theorem C08_sofo_all_stopped (sp : SupSpec) (c : Loop SOFO) (h : SofoReach sp c) :
    (c.m.shutdown = false → ∀ p, p ∈ keys c.m.pids ↔ p ∈ keys c.kids) ∧
    (∀ r, c.status = .terminated r → ∀ p, p ∉ keys c.alive ∧ p ∉ keys c.inflight) := by
  have hi := sofo_inv h
  refine ⟨fun hsd => (hi.minv.normal hsd).1, ?_⟩
  intro r hr p
  have := (hi.term r hr).2.2 p
  exact ⟨fun hp => this ((hi.glue.kids_iff p).mpr (Or.inl hp)), fun hp => this ((hi.glue.kids_iff p).mpr (Or.inr hp))⟩

/-- a shutting-down supervisor that is still alive is waiting for an existing child (D14 repaired: no hang) -/
theorem C08_sofo_no_hang (sp : SupSpec) (c : Loop SOFO) (h : SofoReach sp c)
    (hrun : c.status = .running) (hsd : c.m.shutdown = true) :
    ∃ p, p ∈ c.m.wait ∧ (p ∈ keys c.alive ∨ p ∈ keys c.inflight) := by
  have hi := sofo_inv h
  obtain ⟨p, hp⟩ := hi.live hrun hsd
  exact ⟨p, ((hi.minv.shut hsd).1 p).mpr hp, (hi.glue.kids_iff p).mp hp⟩

/-! ## T7: the glue, for every state machine and every history -/

theorem boot_glue_noticed {σ : Type} (M : Machine σ) (fuel : Nat) (r : σ × Res) :
    Glue (boot M fuel r) ∧ Noticed (boot M fuel r) := by
  have hg : Glue ({ m := r.1 } : Loop σ) := by constructor <;> simp [keys]
  have hn : Noticed ({ m := r.1 } : Loop σ) := by constructor <;> simp
  exact ⟨(afterCall_glue M fuel false [] _ r hg).1, afterCall_noticed M fuel false [] _ r hg hn⟩

theorem reach_glue_noticed {σ : Type} (M : Machine σ) (stepf : Loop σ → Label → Option (Loop σ))
    (hstep : ∀ c l, ∃ fuel, stepf c l = step M fuel c l) (c0 c : Loop σ) (ls : List Label)
    (h0 : Glue c0 ∧ Noticed c0) (hr : run stepf c0 ls = some c) : Glue c ∧ Noticed c :=
  run_inv (Inv := fun x => Glue x ∧ Noticed x)
    (fun s a s' hi hs => by
      obtain ⟨fuel, hf⟩ := hstep s a
      rw [hf] at hs
      exact ⟨step_glue M fuel s s' a hi.1 hs, step_noticed M fuel s s' a hi.1 hi.2 hs⟩) h0 hr

/-- T7 for all three supervisor types, all histories: `Supervisor.children` is exactly the set of spawned children
that are running or whose exit is still unhandled (so every exit is attributed to the right spec), a child's
termination is handed to the state machine at most once, a noticed child is gone for good, pids are not reused -/
theorem C08_every_exit_noticed_once_arfo (sp : SupSpec) (c : Loop ARFO) (h : ∃ ls, run arfoStep (arfoBoot sp) ls = some c) :
    (∀ p, p ∈ keys c.kids ↔ (p ∈ keys c.alive ∨ p ∈ keys c.inflight)) ∧ c.noticed.Nodup ∧
    (∀ p, p ∈ c.noticed → p ∉ keys c.alive ∧ p ∉ keys c.inflight) := by
  obtain ⟨ls, hr⟩ := h
  have := reach_glue_noticed arfoMachine arfoStep (fun c l => ⟨_, rfl⟩) _ c ls (boot_glue_noticed _ _ _) hr
  refine ⟨this.1.kids_iff, this.2.nodup, fun p hp => ?_⟩
  have hk := (this.2.gone p hp).1
  exact ⟨fun ha => hk ((this.1.kids_iff p).mpr (Or.inl ha)), fun hi => hk ((this.1.kids_iff p).mpr (Or.inr hi))⟩

theorem C08_every_exit_noticed_once_ofo (sp : SupSpec) (c : Loop OFO) (h : ∃ ls, run ofoStep (ofoBoot sp) ls = some c) :
    (∀ p, p ∈ keys c.kids ↔ (p ∈ keys c.alive ∨ p ∈ keys c.inflight)) ∧ c.noticed.Nodup ∧
    (∀ p, p ∈ c.noticed → p ∉ keys c.alive ∧ p ∉ keys c.inflight) := by
  obtain ⟨ls, hr⟩ := h
  have := reach_glue_noticed ofoMachine ofoStep (fun c l => ⟨_, rfl⟩) _ c ls (boot_glue_noticed _ _ _) hr
  refine ⟨this.1.kids_iff, this.2.nodup, fun p hp => ?_⟩
  have hk := (this.2.gone p hp).1
  exact ⟨fun ha => hk ((this.1.kids_iff p).mpr (Or.inl ha)), fun hi => hk ((this.1.kids_iff p).mpr (Or.inr hi))⟩

theorem C08_every_exit_noticed_once_sofo (sp : SupSpec) (c : Loop SOFO) (h : SofoReach sp c) :
    (∀ p, p ∈ keys c.kids ↔ (p ∈ keys c.alive ∨ p ∈ keys c.inflight)) ∧ c.noticed.Nodup ∧
    (∀ p, p ∈ c.noticed → p ∉ keys c.alive ∧ p ∉ keys c.inflight) := by
  obtain ⟨ls, hr⟩ := h
  have := reach_glue_noticed sofoMachine sofoStep (fun c l => ⟨_, rfl⟩) _ c ls (boot_glue_noticed _ _ _) hr
  refine ⟨this.1.kids_iff, this.2.nodup, fun p hp => ?_⟩
  have hk := (this.2.gone p hp).1
  exact ⟨fun ha => hk ((this.1.kids_iff p).mpr (Or.inl ha)), fun hi => hk ((this.1.kids_iff p).mpr (Or.inr hi))⟩

/-! ## the full statements the current code refutes (listed findings) -/

def ArfoReach (sp : SupSpec) (c : Loop ARFO) : Prop := ∃ ls, run arfoStep (arfoBoot sp) ls = some c
def OfoReach (sp : SupSpec) (c : Loop OFO) : Prop := ∃ ls, run ofoStep (ofoBoot sp) ls = some c

def sp3 (rest ko : Bool) (st : Strategy) (sig3 das : Bool) : SupSpec :=
  { children := [(1, false), (2, false), (3, sig3)], rest := rest, restart := { strategy := st, keepOrder := ko },
    disableAutoShutdown := das }

theorem sp3_valid (rest ko : Bool) (st : Strategy) (sig3 das : Bool) : ValidSpec (sp3 rest ko st sig3 das) := by
  simp [ValidSpec, sp3]

/-- T8 for one-for-one, unconditionally: from ProcessInit of any valid spec, in EVERY history (children dying at
any moment, spawn failures, management calls in any state) the state machine never panics (`childStarted` is only
ever handed a spec it knows, at the right index) and the `for` loop of `handleAction` always finishes -/
theorem C08_ofo_no_panic (sp : SupSpec) (hv : ValidSpec sp) (c : Loop OFO) (h : OfoReach sp c) :
    c.status ≠ .panicked ∧ c.status ≠ .stuck := by
  obtain ⟨ls, hr⟩ := h
  exact (run_inv (Inv := OFO.Inv) (fun s a s' hi hs => OFO.step_inv s s' a hi hs) (OFO.boot_inv sp hv.1) hr).sane

/-! ### one-for-one keeps track of exactly the children in `Supervisor.children` — inductive steps

`OFO.TInv m kids`: spec names are distinct and non-empty; in normal operation the non-zero pids stored in the specs
are exactly the pids of `Supervisor.children` (with the right spec name); while shutting down the wait set is exactly
that set and a final reason is recorded.  The theorems below are the inductive steps for the exit dispatch and for a
spawn; `C08_all_stopped_ofo_partial` further down is the closure over all histories that avoid D26. -/

/-- exit of a known child in normal operation: the invariant is re-established for the table without that child, and
the answer is good: a `start` is for a spec without a child; `terminateChildren` on entering shutdown makes the
machine wait for exactly the remaining children; `terminate` only when no child is left -/
theorem C08_ofo_tracking_exit_step (m : OFO) (kids : List (Nat × Nat)) (h : OFO.TInv m kids) (hwf : OFO.WF m)
    (hsd : m.shutdown = false) (pid n : Nat) (hk : (pid, n) ∈ kids) (r : Reason) (now : Int) :
    OFO.TInv (m.childTerminated n pid r now).1 (kids.filter (fun x => x.1 ≠ pid)) ∧
    ∃ a, (m.childTerminated n pid r now).2 = .ok a ∧
      OFO.TGood (m.childTerminated n pid r now).1 (kids.filter (fun x => x.1 ≠ pid)) a :=
  OFO.ct_track m kids h hwf hsd pid n hk r now

/-- any exit while shutting down: the wait set shrinks with the table; the supervisor terminates exactly when the
table is empty, with the recorded reason -/
theorem C08_ofo_tracking_shutdown_step (m : OFO) (kids : List (Nat × Nat)) (h : OFO.TInv m kids)
    (hsd : m.shutdown = true) (pid n : Nat) (r : Reason) (now : Int) :
    OFO.TInv (m.childTerminated n pid r now).1 (kids.filter (fun x => x.1 ≠ pid)) ∧
    ∃ a, (m.childTerminated n pid r now).2 = .ok a ∧
      OFO.TGood (m.childTerminated n pid r now).1 (kids.filter (fun x => x.1 ≠ pid)) a :=
  OFO.ct_track_shut m kids h hsd pid n r now

/-- an exit that belongs to no child: every child in the table is told to stop and waited for -/
theorem C08_ofo_tracking_foreign_step (m : OFO) (kids : List (Nat × Nat)) (h : OFO.TInv m kids) (hsd : m.shutdown = false)
    (np : Nat) (hnp0 : np ≠ 0) (hfresh : ∀ p, p ∈ keys kids → p < np) (r : Reason) (now : Int) :
    OFO.TInv (m.childTerminated 0 np r now).1 kids ∧
    ∃ a, (m.childTerminated 0 np r now).2 = .ok a ∧ OFO.TGood (m.childTerminated 0 np r now).1 kids a :=
  OFO.ct_track_foreign m kids h hsd np hnp0 hfresh r now

/-- a spawn for a good `start` action: the new (fresh) pid is recorded for the right spec, and what `childStarted`
asks next is again a good action -/
theorem C08_ofo_tracking_start_step (m : OFO) (kids : List (Nat × Nat)) (h : OFO.TInv m kids) (a : Action)
    (hg : m.shutdown = false ∧ OFO.ValidStart m a ∧ ∃ c : ChildSpec, m.spec[a.spec.i]? = some c ∧ c.pid = 0)
    (np : Nat) (hnp0 : np ≠ 0) (hfresh : ∀ p, p ∈ keys kids → p < np) :
    OFO.TInv (m.childStarted a.spec np).1 ((np, a.spec.name) :: kids) ∧
    ∃ a', (m.childStarted a.spec np).2 = .ok a' ∧ OFO.TGood (m.childStarted a.spec np).1 ((np, a.spec.name) :: kids) a' ∧
      (a'.act = .nothing ∨ a'.act = .start) :=
  OFO.childStarted_track m kids h a hg np hnp0 hfresh

/-- non-vacuity of `OFO.TInv`: c1 running as pid 5, c2 without a child -/
example : OFO.TInv { spec := [{ name := 1, pid := 5, i := 0 }, { name := 2, pid := 0, i := 1 }] } [(5, 1)] := by
  constructor
  · decide
  · intro c hc; simp at hc; rcases hc with rfl | rfl <;> decide
  · intro c1 c2 h1 h2 he hne
    simp at h1 h2
    rcases h1 with rfl | rfl <;> rcases h2 with rfl | rfl <;> simp_all
  · intro _
    constructor
    · intro p
      simp [keys]
      constructor
      · rintro rfl; exact ⟨by decide, Or.inl rfl⟩
      · rintro ⟨hp0, h1 | h1⟩
        · exact h1.symm
        · exact absurd h1.symm hp0
    · intro p n hpn
      simp at hpn
      obtain ⟨rfl, rfl⟩ := hpn
      exact ⟨{ name := 1, pid := 5, i := 0 }, by simp, rfl, rfl⟩
  · intro hx; simp at hx

/-- T8, full: no reachable panic in all/rest-for-one -/
def C08_no_panic_arfo_full : Prop :=
  ∀ sp, ValidSpec sp → ∀ c, ArfoReach sp c → c.status ≠ .panicked

/-- D18: all-for-one with KeepOrder; c1 fails, the supervisor stops c3 and waits; c2 dies meanwhile -/
theorem C08_no_panic_arfo_counterexample : ¬ C08_no_panic_arfo_full := by
  intro h
  have := h (sp3 false true .permanent false false) (sp3_valid _ _ _ _ _)
    _ ⟨[.die 1 (.other 1), .deliver 1 1000 [], .die 2 (.other 2), .deliver 2 1001 []], rfl⟩
  revert this
  decide

theorem startAfterStop_panic (s : ARFO) (h : (ARFO.startAfterStop s).2 = .panic) : ∃ s', ARFO.childForStart s' = none := by
  unfold ARFO.startAfterStop at h
  simp only at h
  split at h
  · rename_i hcf; exact ⟨_, hcf⟩
  · simp at h

theorem restartStep_panic (s : ARFO) (k : Nat) (r : Reason) (h : (ARFO.restartStep s k r).2 = .panic) :
    ∃ s', ARFO.childForStart s' = none := by
  unfold ARFO.restartStep at h
  simp only at h
  repeat' split at h
  all_goals first | (simp at h; done) | exact ⟨_, by assumption⟩

theorem quietStep_no_panic (s : ARFO) (sc : Scan) (sp : ChildSpec) (r : Reason) : (ARFO.quietStep s sc sp r).2 ≠ .panic := by
  simp only [ARFO.quietStep, ARFO.stopAll, ARFO.autoShutdown]
  split <;> split <;> simp

theorem intensityStep_panic (s : ARFO) (sc : Scan) (k : Nat) (r : Reason) (now : Int)
    (h : (ARFO.intensityStep s sc k r now).2 = .panic) : ∃ s', ARFO.childForStart s' = none := by
  unfold ARFO.intensityStep at h
  simp only at h
  split at h
  · simp at h
  · exact restartStep_panic _ _ _ h

theorem stoppingStep_panic (s : ARFO) (k : Nat) (r : Reason) (h : (ARFO.stoppingStep s k r).2 = .panic) :
    (s.keeporder = true ∧ s.wait ≠ []) ∨ ∃ s', ARFO.childForStart s' = none := by
  unfold ARFO.stoppingStep at h
  split at h
  · split at h
    · simp at h
    · exact Or.inr (startAfterStop_panic _ h)
  · rename_i hko
    split at h
    · rename_i hw
      left
      refine ⟨by simpa using hko, ?_⟩
      intro he; rw [he] at hw; simp at hw
    · simp only at h
      repeat' split at h
      all_goals first | (simp at h; done) | exact Or.inr (startAfterStop_panic _ h)

/-- the strongest step-level statement that holds: `childTerminated` of all/rest-for-one can panic only
(a) in the KeepOrder "must be 0" test of the stopping mode, or (b) inside `childForStart` -/
theorem C08_no_panic_arfo_partial (s : ARFO) (name pid : Nat) (r : Reason) (now : Int)
    (h : (s.childTerminated name pid r now).2 = .panic) :
    (s.mode = 2 ∧ s.keeporder = true ∧ sdel pid s.wait ≠ []) ∨ (∃ s', ARFO.childForStart s' = none) := by
  unfold ARFO.childTerminated at h
  simp only at h
  split at h
  · split at h <;> simp at h
  · split at h
    · simp only [ARFO.stopAll] at h; split at h <;> simp at h
    · split at h
      · rename_i hm2
        rcases stoppingStep_panic _ _ _ h with ⟨h1, h2⟩ | h1
        · exact Or.inl ⟨by simpa using hm2, h1, h2⟩
        · exact Or.inr h1
      · split at h
        · simp only [ARFO.autoShutdown] at h; split at h <;> simp at h
        · split at h
          · exact absurd h (quietStep_no_panic _ _ _ _)
          · split at h
            · exact absurd h (quietStep_no_panic _ _ _ _)
            · exact Or.inr (intensityStep_panic _ _ _ _ _ h)
          · exact Or.inr (intensityStep_panic _ _ _ _ _ h)

/-- the closed-system partial result for D18: an all-for-one / rest-for-one supervisor whose spec does NOT ask for
KeepOrder never panics and its handleAction always finishes — for every valid spec and EVERY history (children dying
at any moment, also while others are being stopped; exits handled in any order; spawn failures; foreign exits;
management calls).  Invariant: in the stopping mode every running child of the restart group is in the wait set and
the group contains an enabled spec, so `childForStart` always finds a spec without a child. -/
theorem C08_no_panic_arfo_closed_partial (sp : SupSpec) (hv : ValidSpec sp) (hko : sp.restart.keepOrder = false)
    (c : Loop ARFO) (h : ArfoReach sp c) : c.status ≠ .panicked ∧ c.status ≠ .stuck := by
  obtain ⟨ls, hr⟩ := h
  exact (run_inv (Inv := ARFO.Inv) (fun s a s' hi hs => ARFO.step_inv s s' a hi hs) (ARFO.boot_inv sp hv.1 hko) hr).sane

/-- non-vacuity: a valid rest-for-one spec without KeepOrder, and a history in which a child before the restart range
dies while a later one is being stopped (the D25 history): no panic there -/
example : ValidSpec (sp3 true false .permanent false false) ∧ (sp3 true false .permanent false false).restart.keepOrder = false ∧
    ∃ c, ArfoReach (sp3 true false .permanent false false) c ∧ c.status = .running ∧ c.m.mode = 0 :=
  ⟨sp3_valid _ _ _ _ _, rfl, _,
   ⟨[.die 2 (.other 1), .deliver 2 1000 [], .die 1 (.other 2), .deliver 1 1001 [], .die 3 (.other 1), .deliver 3 1002 []], rfl⟩,
   by decide⟩

/-- T1, full (Permanent): at quiescence every enabled spec has a running child, in every history without
spawn failures -/
def C08_prescribed_set_full : Prop :=
  ∀ sp, ValidSpec sp → sp.restart.strategy = .permanent →
    ∀ ls c, ls.all noSpawnFailure = true → run arfoStep (arfoBoot sp) ls = some c → quiescent c = true →
      ∀ s ∈ c.m.spec, s.disabled = false → c.alive.any (fun a => a.2 == s.name) = true

/-- D25: rest-for-one without KeepOrder; c2 fails (c3 is told to stop), c1 fails before c3 has terminated;
c2 and c3 are restarted, c1 never -/
theorem C08_prescribed_set_counterexample : ¬ C08_prescribed_set_full := by
  intro h
  have := h (sp3 true false .permanent false false) (sp3_valid _ _ _ _ _) rfl
    [.die 2 (.other 1), .deliver 2 1000 [], .die 1 (.other 2), .deliver 1 1001 [], .die 3 (.other 1), .deliver 3 1002 []]
    _ (by decide) rfl (by decide) { name := 1, register := true, i := 0 } (by decide) rfl
  revert this
  decide

/-- "stops all its children": a supervisor that has terminated by its own decision has no running child -/
def C08_all_stopped_ofo_full : Prop :=
  ∀ sp, ValidSpec sp → ∀ c, OfoReach sp c → ∀ r, c.status = .terminated r → c.alive = []

/-- histories of the closed one-for-one system that stay out of the listed region D26: no EnableChild (outside a
shutdown, where it is refused anyway) for a spec that still has an entry in the children table -/
def OfoSafeReach (sp : SupSpec) (c : Loop OFO) : Prop := ∃ ls, run ofoStepSafe (ofoBoot sp) ls = some c

theorem ofo_track {sp : SupSpec} (hv : ValidSpec sp) {c : Loop OFO} (h : OfoSafeReach sp c) : OFO.Track c := by
  obtain ⟨ls, hr⟩ := h
  exact run_inv (Inv := OFO.Track) (fun s a s' hi hs => OFO.step_track s s' a hi hs) (OFO.boot_track sp hv) hr

/-- the strongest statement that holds for one-for-one: outside D26, for every valid spec and EVERY history
(children dying at any moment, exits handled in any order, spawn failures, foreign exits, management calls):
the machine's pids are exactly the children table; a terminated supervisor has no child left, running or unnoticed;
a supervisor that is shutting down and still alive is waiting for an existing child (it cannot hang); no panic -/
theorem C08_all_stopped_ofo_partial (sp : SupSpec) (hv : ValidSpec sp) (c : Loop OFO) (h : OfoSafeReach sp c) :
    (∀ r, c.status = .terminated r → c.alive = [] ∧ c.inflight = []) ∧
    (c.m.shutdown = false → ∀ p, p ∈ keys c.kids ↔ (p ≠ 0 ∧ ∃ s, s ∈ c.m.spec ∧ s.pid = p)) ∧
    (c.status = .running → c.m.shutdown = true → ∃ p, p ∈ c.m.wait ∧ (p ∈ keys c.alive ∨ p ∈ keys c.inflight)) ∧
    c.status ≠ .panicked ∧ c.status ≠ .stuck := by
  have ht := ofo_track hv h
  refine ⟨?_, fun hsd => (ht.core.tinv.normal hsd).1, ?_, ht.core.sane.1, ht.core.sane.2⟩
  · intro r hr
    have hk := (ht.core.term r hr).1
    have ha : ∀ p, p ∉ keys c.alive := fun p hp => hk p ((ht.glue.kids_iff p).mpr (Or.inl hp))
    have hi : ∀ p, p ∉ keys c.inflight := fun p hp => hk p ((ht.glue.kids_iff p).mpr (Or.inr hp))
    constructor
    · cases hx : c.alive with
      | nil => rfl
      | cons a t => exact absurd (by rw [hx]; simp [keys]) (ha a.1)
    · cases hx : c.inflight with
      | nil => rfl
      | cons a t => exact absurd (by rw [hx]; simp [keys]) (hi a.1)
  · intro hrun hsd
    obtain ⟨p, hp⟩ := ht.core.live hrun hsd
    exact ⟨p, ((ht.core.tinv.shut hsd).1 p).mpr hp, (ht.glue.kids_iff p).mp hp⟩

/-- D26: DisableChild c2, c2 dies, EnableChild c2 before the exit is handled (new child, pid 4); the stale exit
clears the new pid; the significant c3 dies: only c1 is stopped; the supervisor terminates with pid 4 running -/
theorem C08_all_stopped_ofo_counterexample : ¬ C08_all_stopped_ofo_full := by
  intro h
  have := h (sp3 false false .temporary true true) (sp3_valid _ _ _ _ _)
    _ ⟨[.disable 2, .die 2 .shutdown, .enable 2 [], .deliver 2 1000 [], .die 3 (.other 1), .deliver 3 1001 [],
        .die 1 (.other 1), .deliver 1 1002 []], rfl⟩ (.other 1) (by decide)
  revert this
  decide

/-- the history that broke it before D27 was repaired (StartChild c2 accepted while c1 was being stopped: the supervisor
terminated with the new c2 running) now ends with nothing left: the call is refused -/
example : ∃ c, run ofoStepSafe (ofoBoot (sp3 false false .temporary true true))
      [.die 2 .normal, .deliver 2 1000 [], .die 3 (.other 1), .deliver 3 1001 [], .startChild 2 0 [],
       .die 1 (.other 1), .deliver 1 1002 []] = some c ∧ c.status = .terminated (.other 1) ∧ c.alive = [] :=
  ⟨_, rfl, by decide⟩

/-- the restart of a registered child presupposes that its name is free when the supervisor handles the exit signal:
the node releases the name before it sends the exit signals (regenerated from node.unregisterProcess; the repaired D28 —
the restart is exercised on a real node by the K4 part of the harness) -/
theorem C08_code_shape_name_release : ErgoVerif.Gen.Unreg.nameReleasedBeforeExitSignals = true := by decide

/-- the shell that executes the machines' actions (`Supervisor.handleAction`), as the closed-system model and the
simulation assume it: a start links the child both ways, hands a spawn error back (the supervisor terminates with it),
records the pid and asks the machine for the next action; stopping children sends every exit signal and IGNORES a
refusal (a child that is already gone has its exit on the way), never returning from inside the loop; an empty stop
list and `terminate` end the supervisor with the action's reason (regenerated statement skeletons) -/
def expectedShell : List String := [
  "supActionDoNothing: s.state=supStateNormal; break",
  "supActionStartChild: s.state=supStateStrategy; action.spec.Options.LinkChild=true; action.spec.Options.LinkParent=true; if action.spec.register {pid,err=s.SpawnRegister()} else {pid,err=s.Spawn()}; if err != nil {s.state=supStateNormal; return}; if s.handleChild {s.Send()}; s.children[pid]=action.spec.Name; action=s.sup.childStarted(); continue",
  "supActionTerminateChildren: if len(action.terminate) == 0 {return}; s.state=supStateStrategy; range action.terminate {if err:=s.SendExit(); err == nil {s.Log().Info()}}; s.state=supStateNormal; return",
  "supActionTerminate: return",
  "default: panic()"]

theorem C08_code_shape_shell : ErgoVerif.Gen.SupShell.caseShapes = expectedShell := rfl

/-! ## non-vacuity -/

/-- a Permanent one-for-one supervisor with c2 running restarts it after `kill` -/
example :
    let s : OFO := { spec := mkSpecs true 0 [(1, false), (2, false)], restart := { strategy := .permanent } }
    let s := { s with spec := s.spec.map fun (c : ChildSpec) => { c with pid := 100 + c.i } }
    (s.childTerminated 2 101 .kill 1000).2 = .ok { act := .start, spec := { name := 2, register := true, i := 1 } } := by
  decide

/-- the hypotheses of the decision theorems are satisfiable (a found, enabled spec in normal mode) -/
example : ∃ (s : ARFO) (k : Nat) (c : ChildSpec),
    s.mode = 0 ∧ (scan 2 101 0 s.spec).found = some (k, c) ∧ c.disabled = false :=
  ⟨{ spec := (mkSpecs true 0 [(1, false), (2, false)]).map fun (c : ChildSpec) => { c with pid := 100 + c.i } }, 1,
   { name := 2, register := true, i := 1 }, rfl, by decide, rfl⟩

/-- the closed simple-one-for-one system does reach shutting-down configurations that are still running -/
example : ∃ c, SofoReach { children := [(1, false)], restart := { strategy := .permanent, intensity := 1 } } c ∧
    c.status = .running ∧ c.m.shutdown = true :=
  ⟨_, ⟨[.startChild 1 0 [], .startChild 1 0 [], .die 1 .kill, .deliver 1 1000 [], .die 3 .kill, .deliver 3 1100 []], rfl⟩,
   by decide⟩

/-- a well-behaved all-for-one history: c2 fails, c3 and c1 are stopped in reverse order, all three are started in
spec order -/
example : ∃ c, run arfoStep (arfoBoot (sp3 false false .permanent false false))
      [.die 2 (.other 1), .deliver 2 1000 [], .die 3 (.other 1), .die 1 (.other 1), .deliver 3 1001 [], .deliver 1 1002 []] = some c ∧
    c.exitsSent.map (·.1) = [3, 1] ∧ c.alive.map (·.2) = [3, 2, 1] ∧ c.m.mode = 0 ∧ c.status = .running :=
  ⟨_, rfl, by decide⟩

end ErgoVerif.Props.C08

import ErgoVerif.Drive.Util
import ErgoVerif.Model.Tree
namespace ErgoVerif.Drive.Tree
open ErgoVerif ErgoVerif.Drive ErgoVerif.Tree

def showCfg (c : Cfg) : String :=
  let alive := (c.zipIdx.filter (·.1.alive)).map (·.2)
  let pend := (c.zipIdx.filter (fun x => x.1.alive && x.1.pendingExit)).map (·.2)
  s!"alive={showNatList alive} pending={showNatList pend}"

/-- `reset` | `root` | `spawn <p>` | `die <i>` | `exit <i>` (handle the parent's exit) -/
def line (s : Option Cfg) (ln : String) : Option Cfg × String :=
  match words ln with
  | ["reset"] => (some [], "ok")
  | ws =>
    match s with
    | none => (none, "dead")
    | some c =>
      let l : Option Lbl := match ws with
        | ["root"] => some .spawnRoot
        | ["spawn", p] => p.toNat?.map Lbl.spawnChild
        | ["die", i] => i.toNat?.map Lbl.die
        | ["exit", i] => i.toNat?.map Lbl.handleExit
        | _ => none
      match l with
      | none => (s, "bad-op")
      | some l => match step c l with
        | some c' => (some c', showCfg c')
        | none => (none, "disabled")

def main (h : IO.FS.Stream) : IO Unit := loopState h line (some [])
end ErgoVerif.Drive.Tree

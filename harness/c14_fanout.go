package main

import (
	"fmt"
	"os"
	"strings"
	"time"

	"ergo.services/ergo"
	"ergo.services/ergo/gen"
)

// C14 part 4 — K2 on the node-down FAN-OUT: one real node (network disabled) whose TargetManager is an instance the
// harness keeps a handle to (gen.NodeOptions.TargetManager), real observer processes as holders.  Random relations of
// every dynamic target type are written straight into the table, then the real node.RouteNodeDown(name) runs; what
// every observer received is compared with Model.TM.routeNodeDown (driver line `nd`), restricted to the holders
// that exist on this node, and checked by the independent oracle (exactly one exit/down with ErrNoConnection per
// relation whose target lived on the lost node).

func init() { c14Parts = append(c14Parts, c14Fanout) }

func c14notifTok(m any) (string, bool) {
	tt := func(v any) string { return tmTargetTok(v) }
	switch x := m.(type) {
	case gen.MessageExitPID:
		return "exit:" + tt(x.PID), x.Reason == gen.ErrNoConnection
	case gen.MessageDownPID:
		return "down:" + tt(x.PID), x.Reason == gen.ErrNoConnection
	case gen.MessageExitProcessID:
		return "exit:" + tt(x.ProcessID), x.Reason == gen.ErrNoConnection
	case gen.MessageDownProcessID:
		return "down:" + tt(x.ProcessID), x.Reason == gen.ErrNoConnection
	case gen.MessageExitAlias:
		return "exit:" + tt(x.Alias), x.Reason == gen.ErrNoConnection
	case gen.MessageDownAlias:
		return "down:" + tt(x.Alias), x.Reason == gen.ErrNoConnection
	case gen.MessageExitEvent:
		return "exit:" + tt(x.Event), x.Reason == gen.ErrNoConnection
	case gen.MessageDownEvent:
		return "down:" + tt(x.Event), x.Reason == gen.ErrNoConnection
	case gen.MessageExitNode:
		return "exit:" + tt(x.Name), true
	case gen.MessageDownNode:
		return "down:" + tt(x.Name), true
	}
	return "", false
}

func c14Fanout(c *Ctx) {
	r := c.R
	tm := gen.CreateDefaultTargetManager()
	// networking stays enabled (in-memory registrar, nobody to connect to): with NetworkModeDisabled a send to a
	// remote pid dereferences the nil registrar in network.GetConnection and panics
	c14seq++
	reg := &c14reg{routes: map[gen.Atom][]gen.Route{}}
	var o gen.NodeOptions
	o.Network.Cookie = "c14-cookie"
	o.Log.DefaultLogger.Disable = true
	o.Log.Level = gen.LogLevelDisabled
	o.Network.Registrar = &c14registrar{reg: reg}
	port := uint16(20000 + (os.Getpid()*7+c14seq*13+5000)%20000)
	o.Network.Acceptors = []gen.AcceptorOptions{{Host: "localhost", Port: port, PortRange: port + 400}}
	o.TargetManager = tm
	// the K2 universe calls the local node n1@host (tmNode(1)); the acceptor listens on localhost
	node, err := ergo.StartNode(tmNode(1), o)
	if err != nil {
		// another harness process may own the name within this OS process only; names are process-local here
		r.Count("inconclusive.fanout-node-start")
		r.Note("C14 fanout: StartNode: %v", err)
		return
	}
	defer node.StopForce()
	core, ok := node.(gen.Core)
	if !ok {
		r.Disagree("fanout.core", "the node object does not implement gen.Core", nil)
		return
	}
	rec := &c14rec{}
	root, err := node.Spawn(c14factory, gen.ProcessOptions{}, rec)
	if err != nil {
		r.Count("inconclusive.fanout-setup")
		return
	}
	spawnObs := func() (gen.PID, bool) {
		var h gen.PID
		var e error
		if !c14do(node, root, 3*time.Second, func(a *c14actor) { h, e = a.Spawn(c14factory, gen.ProcessOptions{}, rec) }) || e != nil {
			return h, false
		}
		return h, true
	}
	rounds := c.N(1500, 20000)
	t0 := time.Now()
	var lines, want []string
	for round := 0; round < rounds; round++ {
		linesAt, wantAt := len(lines), len(want) // a round that cannot be judged is taken out of the protocol again
		// observers are fresh every round (their mailboxes start empty)
		nobs := 1 + c.Rng.Intn(3)
		var obs []gen.PID
		for i := 0; i < nobs; i++ {
			h, ok := spawnObs()
			if !ok {
				r.Count("inconclusive.fanout-setup")
				return
			}
			obs = append(obs, h)
		}
		pidTok := func(p gen.PID) string { return fmt.Sprintf("1.%d.%d", p.ID, p.Creation) }
		// holders: the observers + processes that do not exist here (another node, or unknown local id)
		type holder struct {
			pid gen.PID
			tok string
		}
		var holders []holder
		for _, h := range obs {
			holders = append(holders, holder{h, pidTok(h)})
		}
		for i := 0; i < 2; i++ {
			p := tmPid{node: 2 + c.Rng.Intn(2), id: 1000 + c.Rng.Intn(4), cr: 7}
			holders = append(holders, holder{p.gen(), p.tok()})
		}
		ghost := gen.PID{Node: tmNode(1), ID: uint64(900000 + c.Rng.Intn(50)), Creation: node.Creation()}
		holders = append(holders, holder{ghost, pidTok(ghost)})
		lines = append(lines, "reset")
		want = append(want, "ok")
		down := 2 + c.Rng.Intn(2)
		nrel := 1 + c.Rng.Intn(10)
		expected := map[string]map[string]int{} // observer token -> notification -> count (oracle)
		seen := map[string]bool{}
		for i := 0; i < nrel; i++ {
			h := holders[c.Rng.Intn(len(holders))]
			if c.Rng.Chance(1, 2) {
				h = holders[c.Rng.Intn(len(obs))] // mostly real observers
			}
			k := "PPNAEOX"[c.Rng.Intn(7)]
			t := tmTarget{kind: k, node: 1 + c.Rng.Intn(3), id: c.Rng.Intn(3), cr: 7}
			if c.Rng.Chance(1, 2) {
				t.node = down // mostly targets on the node that will go down
			}
			if k == 'P' {
				t.id = 1000 + c.Rng.Intn(4)
			}
			mon := c.Rng.Bool()
			op, kind := "al", "exit"
			var e error
			if mon {
				op, kind = "am", "down"
				e = tm.AddMonitor(h.pid, t.gen())
			} else {
				e = tm.AddLink(h.pid, t.gen())
			}
			lines = append(lines, fmt.Sprintf("%s %s %s", op, h.tok, t.tok()))
			want = append(want, tmErr(e))
			key := op + h.tok + t.tok()
			if e == nil && !seen[key] && t.kind != 'X' && t.node == down && !strings.HasPrefix(h.tok, fmt.Sprintf("%d.", down)) {
				if expected[h.tok] == nil {
					expected[h.tok] = map[string]int{}
				}
				expected[h.tok][kind+":"+t.tok()]++
			}
			seen[key] = true
		}
		core.RouteNodeDown(tmNode(down), nil)
		// every observer handles its urgent (exit) and system (down) queues before the main queue: a command through the
		// main queue is a barrier
		barrier := true
		for _, h := range obs {
			if !c14do(node, h, 20*time.Second, func(a *c14actor) {}) {
				barrier = false
			}
		}
		if !barrier {
			// an observer did not answer within 20 s: nothing can be said about what it received; stop this part
			r.Count("inconclusive.fanout-barrier")
			r.Note("C14 fan-out: an observer did not pass the barrier; part stopped after %d rounds", round)
			for _, h := range obs {
				node.Kill(h)
			}
			for _, h := range holders {
				tm.CleanupConsumer(h.pid)
			}
			lines, want = lines[:linesAt], want[:wantAt]
			break
		}
		var got []string
		for _, h := range obs {
			cnt := map[string]int{}
			for _, m := range rec.at(h) {
				tok, reasonOK := c14notifTok(m)
				if tok == "" {
					continue
				}
				if !reasonOK {
					r.Violation("C14/notification-reason", fmt.Sprintf("node-down notification %s carries a reason other than ErrNoConnection: %#v", tok, m), lines)
				}
				cnt[tok]++
				got = append(got, tok+">"+pidTok(h))
			}
			exp := expected[pidTok(h)]
			for tok, n := range cnt {
				if n != 1 || exp[tok] != 1 {
					r.Violation("C14/node-down-exactly-once", fmt.Sprintf("observer %s received %d x %s after node n%d went down; relations held on it: %v", pidTok(h), n, tok, down, exp), lines)
				}
			}
			for tok := range exp {
				if cnt[tok] == 0 {
					r.Violation("C14/notification-lost", fmt.Sprintf("observer %s held a relation and got no %s after node n%d went down", pidTok(h), tok, down), lines)
				}
			}
			node.Kill(h)
		}
		// the node's table is shared by all rounds: empty it (the model starts every round with `reset`)
		for _, h := range holders {
			tm.CleanupConsumer(h.pid)
		}
		// the model's fan-out, restricted to holders that exist on this node
		lines = append(lines, fmt.Sprintf("nd %d", down))
		want = append(want, "@"+tmList(got)+"@"+strings.Join(func() []string {
			var os []string
			for _, h := range obs {
				os = append(os, pidTok(h))
			}
			return os
		}(), ","))
		r.Case(strings.Join(lines[len(lines)-nrel-2:], "|"), len(got) > 0)
		r.Count("fanout.rounds")
		r.CountN("fanout.notifications", len(got))
	}
	r.CountN("fanout.ms", int(time.Since(t0).Milliseconds()))
	outs, err := Model("tm", lines)
	if err != nil {
		r.Disagree("tm.driver", err.Error(), nil)
		return
	}
	for i := range lines {
		w := want[i]
		if strings.HasPrefix(w, "@") {
			parts := strings.SplitN(w[1:], "@", 2)
			obs := map[string]bool{}
			for _, o := range strings.Split(parts[1], ",") {
				obs[o] = true
			}
			var ms []string
			if outs[i] != "-" {
				for _, x := range strings.Split(outs[i], ";") {
					if j := strings.LastIndex(x, ">"); j >= 0 && obs[x[j+1:]] {
						ms = append(ms, x)
					}
				}
			}
			if tmList(ms) != parts[0] {
				r.Disagree("K2 Model.TM.routeNodeDown ~ node.RouteNodeDown", fmt.Sprintf("line %d %q: model (existing holders) %q, implementation %q", i, lines[i], tmList(ms), parts[0]), lines[:i+1])
				return
			}
			continue
		}
		if outs[i] != w {
			r.Disagree("K2 Model.TM ~ gen.defaultTargetManager (fan-out set-up)", fmt.Sprintf("line %d %q: model %q, implementation %q", i, lines[i], outs[i], w), nil)
			return
		}
	}
}

/-
Round trip of the table-driven frame model (Model/Frame.lean): for an arbitrary `k : Kind` whose
layout tables pass the decidable check `LayoutOK`, the receive case applied to the frame the
writer produced finds the payload, the inline name and every header field that was written.

  A  `beVal (beBytes w n) = n % 256 ^ w`
  B  windows `win b o w = b[o : o+w]` under `put` / `orAt`
  C  one write (`step_*`), the fold over the write table (`fold_split`), the header after all
     writes (`hdr_plain`, `hdr_masked`, `hdr_flag_clear`, `hdr_flag_set`, `hdr_name`)
  D  one-byte mask arithmetic through `Nat.testBit`
  E  `readFld (encode k m) r = expected k m r` (`read_ok`), `parse_encode`
  plus `parse_short`, `parse_total`, `parse_ok_payload_suffix`.
Core Lean only.
-/
import ErgoVerif.Model.Frame
namespace ErgoVerif.Frame
open ErgoVerif.Generated.Proto

/-! ### A. big-endian bytes -/

theorem beBytes_length (w n : Nat) : (beBytes w n).length = w := by
  induction w with
  | zero => rfl
  | succ w ih => simp [beBytes, ih]

theorem beVal_foldl (bs : Bytes) (a : Nat) :
    bs.foldl (fun acc b => acc * 256 + b.toNat) a = a * 256 ^ bs.length + beVal bs := by
  induction bs generalizing a with
  | nil => simp [beVal]
  | cons x xs ih =>
    simp only [List.foldl_cons, beVal, List.length_cons]
    rw [ih (a * 256 + x.toNat), ih (0 * 256 + x.toNat)]
    simp only [beVal, Nat.pow_succ, Nat.add_mul, Nat.mul_assoc, Nat.zero_mul, Nat.zero_add, Nat.add_assoc]
    rw [Nat.mul_comm 256]

theorem beVal_cons (x : UInt8) (xs : Bytes) : beVal (x :: xs) = x.toNat * 256 ^ xs.length + beVal xs := by
  have := beVal_foldl xs (0 * 256 + x.toNat)
  simp only [beVal, List.foldl_cons] at this ⊢
  simpa using this

theorem beVal_beBytes_mod (w n : Nat) : beVal (beBytes w n) = n % 256 ^ w := by
  induction w with
  | zero => simp [beBytes, beVal, Nat.mod_one]
  | succ w ih =>
    have h1 : n % 256 ^ (w + 1) = n % 256 ^ w + 256 ^ w * (n / 256 ^ w % 256) := by
      rw [Nat.pow_succ, Nat.mod_mul]
    have h2 : (2 : Nat) ^ 8 = 256 := rfl
    rw [beBytes, beVal_cons, ih, beBytes_length, UInt8.toNat_ofNat', h1, h2, Nat.mul_comm, Nat.add_comm]

theorem beVal_beBytes (w n : Nat) (h : n < 256 ^ w) : beVal (beBytes w n) = n := by
  rw [beVal_beBytes_mod, Nat.mod_eq_of_lt h]

theorem beVal_single (x : UInt8) : beVal [x] = x.toNat := by simp [beVal]

/-! ### B. windows, `put`, `orAt` -/

/-- the bytes `b[o : o+w]` -/
def win (b : Bytes) (o w : Nat) : Bytes := (b.drop o).take w

theorem win_getElem? (b : Bytes) (o w i : Nat) : (win b o w)[i]? = if i < w then b[o + i]? else none := by
  simp [win, List.getElem?_take, List.getElem?_drop]

theorem put_length (b : Bytes) (off : Nat) (bs : Bytes) (h : off + bs.length ≤ b.length) :
    (put b off bs).length = b.length := by
  simp [put]; omega

theorem put_getElem? (b : Bytes) (off : Nat) (bs : Bytes) (h : off + bs.length ≤ b.length) (i : Nat) :
    (put b off bs)[i]? = if i < off then b[i]? else if i < off + bs.length then bs[i - off]? else b[i]? := by
  have h1 : (b.take off).length = off := by simp; omega
  simp only [put, List.getElem?_append, List.length_append, h1, List.getElem?_take, List.getElem?_drop]
  by_cases c1 : i < off
  · have : i < off + bs.length := by omega
    simp [c1, this]
  · by_cases c2 : i < off + bs.length
    · simp [c1, c2]
    · simp only [c1, c2, if_false]
      congr 1; omega

theorem win_put_same (b : Bytes) (off : Nat) (bs : Bytes) (h : off + bs.length ≤ b.length) :
    win (put b off bs) off bs.length = bs := by
  apply List.ext_getElem?; intro i
  rw [win_getElem?, put_getElem? b off bs h]
  by_cases c : i < bs.length
  · have h1 : ¬ (off + i < off) := by omega
    have h2 : off + i < off + bs.length := by omega
    simp only [c, h1, h2, if_true, if_false]; congr 1; omega
  · simp only [c, if_false]; rw [List.getElem?_eq_none]; omega

theorem win_put_disj (b : Bytes) (off : Nat) (bs : Bytes) (h : off + bs.length ≤ b.length) (o w : Nat)
    (hd : o + w ≤ off ∨ off + bs.length ≤ o) : win (put b off bs) o w = win b o w := by
  apply List.ext_getElem?; intro i
  rw [win_getElem?, win_getElem?, put_getElem? b off bs h]
  by_cases c : i < w
  · simp only [c, if_true]
    by_cases c1 : o + i < off
    · simp [c1]
    · have : ¬ (o + i < off + bs.length) := by omega
      simp [c1, this]
  · simp [c]

theorem orAt_length (b : Bytes) (off m : Nat) : (orAt b off m).length = b.length := by
  unfold orAt
  split
  · rfl
  · next x hx =>
    have : off < b.length := by
      rcases List.getElem?_eq_some_iff.mp hx with ⟨h, _⟩; exact h
    apply put_length; simp; omega

theorem win_orAt_disj (b : Bytes) (off m o w : Nat) (hd : o + w ≤ off ∨ off + 1 ≤ o) :
    win (orAt b off m) o w = win b o w := by
  unfold orAt
  split
  · rfl
  · next x hx =>
    have : off < b.length := by
      rcases List.getElem?_eq_some_iff.mp hx with ⟨h, _⟩; exact h
    apply win_put_disj
    · simp; omega
    · simpa using hd

theorem win_one (b : Bytes) (o : Nat) (h : o < b.length) : win b o 1 = [b[o]] := by
  apply List.ext_getElem?; intro i
  rw [win_getElem?]
  cases i with
  | zero => simp [h]
  | succ i => simp

theorem win_orAt_same (b : Bytes) (off m : Nat) (x : UInt8) (hx : win b off 1 = [x]) :
    win (orAt b off m) off 1 = [UInt8.ofNat (x.toNat ||| m)] := by
  have hlt : off < b.length := by
    have := congrArg List.length hx
    simp [win] at this; omega
  have hbx : b[off]? = some x := by
    rw [win_one b off hlt] at hx
    simp at hx; simp [hlt, hx]
  unfold orAt
  rw [hbx]
  exact win_put_same b off [UInt8.ofNat (x.toNat ||| m)] (by simp; omega)

theorem win_append (b c : Bytes) (o w : Nat) (h : o + w ≤ b.length) : win (b ++ c) o w = win b o w := by
  apply List.ext_getElem?; intro i
  rw [win_getElem?, win_getElem?]
  by_cases c1 : i < w
  · have : o + i < b.length := by omega
    simp [c1, List.getElem?_append, this]
  · simp [c1]

theorem win_all (b : Bytes) (o : Nat) : win b o (b.length - o) = b.drop o := by
  unfold win; apply List.take_of_length_le; simp

/-! ### D. mask arithmetic on one byte -/

theorem mask_keep (x mk rm : Nat) (hx : x < 256) (h : mk &&& rm = 0) :
    ((x ||| mk) % 256) &&& rm = x &&& rm := by
  apply Nat.eq_of_testBit_eq; intro i
  have h1 := congrArg (fun n => Nat.testBit n i) h
  simp only [Nat.testBit_and, Nat.zero_testBit] at h1
  have h2 : (x ||| mk) % 256 = (x ||| mk) % 2 ^ 8 := rfl
  rw [h2, Nat.testBit_and, Nat.testBit_mod_two_pow, Nat.testBit_or, Nat.testBit_and]
  by_cases c : i < 8
  · simp only [c, decide_true, Bool.true_and]
    cases hm : mk.testBit i <;> cases hr : rm.testBit i <;> simp_all
  · have : x.testBit i = false := by
      apply Nat.testBit_lt_two_pow
      have : 2 ^ 8 ≤ 2 ^ i := Nat.pow_le_pow_right (by decide) (by omega)
      omega
    simp [c, this]

theorem mask_set (x rm : Nat) (hr : rm < 256) : ((x ||| rm) % 256) &&& rm = rm := by
  apply Nat.eq_of_testBit_eq; intro i
  have h2 : (x ||| rm) % 256 = (x ||| rm) % 2 ^ 8 := rfl
  rw [h2, Nat.testBit_and, Nat.testBit_mod_two_pow, Nat.testBit_or]
  by_cases c : i < 8
  · simp only [c, decide_true, Bool.true_and]
    cases rm.testBit i <;> simp
  · have : rm.testBit i = false := by
      apply Nat.testBit_lt_two_pow
      have : 2 ^ 8 ≤ 2 ^ i := Nat.pow_le_pow_right (by decide) (by omega)
      omega
    simp [c, this]

theorem mask_stay (x mk rm : Nat) (hr : rm < 256) (h : x &&& rm = rm) : ((x ||| mk) % 256) &&& rm = rm := by
  apply Nat.eq_of_testBit_eq; intro i
  have h1 := congrArg (fun n => Nat.testBit n i) h
  simp only [Nat.testBit_and] at h1
  have h2 : (x ||| mk) % 256 = (x ||| mk) % 2 ^ 8 := rfl
  rw [h2, Nat.testBit_and, Nat.testBit_mod_two_pow, Nat.testBit_or]
  by_cases c : i < 8
  · simp only [c, decide_true, Bool.true_and]
    cases hm : mk.testBit i <;> cases hr : rm.testBit i <;> simp_all
  · have : rm.testBit i = false := by
      apply Nat.testBit_lt_two_pow
      have : 2 ^ 8 ≤ 2 ^ i := Nat.pow_le_pow_right (by decide) (by omega)
      omega
    simp [c, this]


/-! ### C. one write -/

/-- number of bytes a write touches -/
def tlen (m : Msg) (x : Fld) : Nat :=
  if x.mask ≠ 0 then 1 else if x.width = 0 then m.name.length else x.width

theorem step_off (k : Kind) (m : Msg) (t : Nat) (b : Bytes) (x : Fld) (hc : condOn m x.cond = false) :
    applyWrite k m t b x = b := by
  simp [applyWrite, hc]

theorem step_length (k : Kind) (m : Msg) (t : Nat) (b : Bytes) (x : Fld) (L : Nat) (hb : b.length = L)
    (hx : x.off + tlen m x ≤ L) : (applyWrite k m t b x).length = L := by
  unfold applyWrite tlen at *
  split
  · exact hb
  · split
    · rw [orAt_length]; exact hb
    · next hm =>
      split
      · next hw => rw [put_length]; exact hb; simp [hm, hw] at hx; omega
      · next hw => rw [put_length]; exact hb; simp [hm, hw] at hx; rw [beBytes_length]; omega

theorem step_disj (k : Kind) (m : Msg) (t : Nat) (b : Bytes) (x : Fld) (L : Nat) (hb : b.length = L)
    (hx : x.off + tlen m x ≤ L) (o w : Nat) (hd : o + w ≤ x.off ∨ x.off + tlen m x ≤ o) :
    win (applyWrite k m t b x) o w = win b o w := by
  unfold applyWrite tlen at *
  split
  · rfl
  · split
    · next hm => simp [hm] at hd; exact win_orAt_disj b x.off x.mask o w hd
    · next hm =>
      split
      · next hw =>
        simp [hm, hw] at hx hd
        exact win_put_disj b x.off m.name (by omega) o w hd
      · next hw =>
        simp [hm, hw] at hx hd
        apply win_put_disj
        · rw [beBytes_length]; omega
        · rw [beBytes_length]; exact hd

theorem step_plain (k : Kind) (m : Msg) (t : Nat) (b : Bytes) (x : Fld) (L : Nat) (hb : b.length = L)
    (hx : x.off + x.width ≤ L) (hm : x.mask = 0) (hw : x.width ≠ 0) (hc : condOn m x.cond = true) :
    win (applyWrite k m t b x) x.off x.width = beBytes x.width (fieldVal k m t x.name) := by
  have := win_put_same b x.off (beBytes x.width (fieldVal k m t x.name)) (by rw [beBytes_length]; omega)
  rw [beBytes_length] at this
  simp [applyWrite, hc, hm, hw, this]

theorem step_name (k : Kind) (m : Msg) (t : Nat) (b : Bytes) (x : Fld) (L : Nat) (hb : b.length = L)
    (hx : x.off + m.name.length ≤ L) (hm : x.mask = 0) (hw : x.width = 0) (hc : condOn m x.cond = true) :
    win (applyWrite k m t b x) x.off m.name.length = m.name := by
  have := win_put_same b x.off m.name (by omega)
  simp [applyWrite, hc, hm, hw, this]

theorem step_mask (k : Kind) (m : Msg) (t : Nat) (b : Bytes) (x : Fld) (y : UInt8)
    (hm : x.mask ≠ 0) (hc : condOn m x.cond = true) (hy : win b x.off 1 = [y]) :
    win (applyWrite k m t b x) x.off 1 = [UInt8.ofNat (y.toNat ||| x.mask)] := by
  have := win_orAt_same b x.off x.mask y hy
  simp [applyWrite, hc, hm, this]

/-! ### C. the fold -/

theorem foldl_inv (P : Bytes → Prop) (f : Bytes → Fld → Bytes) (ws : List Fld)
    (h : ∀ x ∈ ws, ∀ b, P b → P (f b x)) (b : Bytes) (hb : P b) : P (ws.foldl f b) := by
  induction ws generalizing b with
  | nil => exact hb
  | cons x xs ih =>
    rw [List.foldl_cons]
    exact ih (fun y hy => h y (List.mem_cons_of_mem _ hy)) _ (h x (List.mem_cons_self ..) b hb)

theorem fold_length (k : Kind) (m : Msg) (t L : Nat) (ws : List Fld)
    (hws : ∀ x ∈ ws, x.off + tlen m x ≤ L) (b : Bytes) (hb : b.length = L) :
    (ws.foldl (applyWrite k m t) b).length = L :=
  foldl_inv (fun b => b.length = L) _ ws (fun x hx b hb => step_length k m t b x L hb (hws x hx)) b hb

/-- a property established by one write and kept by all later ones holds at the end -/
theorem fold_split (k : Kind) (m : Msg) (t L : Nat) (P : Bytes → Prop) (pre suf : List Fld) (a : Fld)
    (hws : ∀ x ∈ pre ++ a :: suf, x.off + tlen m x ≤ L) (b0 : Bytes) (hb0 : b0.length = L)
    (ha : ∀ b, b.length = L → P (applyWrite k m t b a))
    (hsuf : ∀ x ∈ suf, ∀ b, b.length = L → P b → P (applyWrite k m t b x)) :
    P ((pre ++ a :: suf).foldl (applyWrite k m t) b0) := by
  rw [List.foldl_append, List.foldl_cons]
  have h1 : (pre.foldl (applyWrite k m t) b0).length = L :=
    fold_length k m t L pre (fun x hx => hws x (by simp [hx])) b0 hb0
  have h2 := ha _ h1
  have h3 := step_length k m t _ a L h1 (hws a (by simp))
  have := foldl_inv (fun b => b.length = L ∧ P b) (applyWrite k m t) suf
    (fun x hx b hb => ⟨step_length k m t b x L hb.1 (hws x (by simp [hx])), hsuf x hx b hb.1 hb.2⟩) _ ⟨h3, h2⟩
  exact this.2

/-! ### order-sensitive list facts -/

/-- two plain writes either do not overlap or write the same value at the same place -/
def compat (a b : Fld) : Prop :=
  (a.off + a.width ≤ b.off ∨ b.off + b.width ≤ a.off) ∨ (a.off = b.off ∧ a.width = b.width ∧ a.name = b.name)

theorem pd_split (l1 l2 : List Fld) (a : Fld) (h : pairwiseDisjoint (l1 ++ a :: l2) = true) :
    ∀ b ∈ l2, compat a b := by
  induction l1 with
  | nil =>
    simp only [List.nil_append, pairwiseDisjoint, Bool.and_eq_true, List.all_eq_true] at h
    intro b hb
    have := h.1 b hb
    simp only [disjoint, Bool.or_eq_true, Bool.and_eq_true, decide_eq_true_eq] at this
    rcases this with h | h
    · exact Or.inl h
    · exact Or.inr ⟨h.1.1.2, h.1.2, h.2⟩
  | cons c l1 ih =>
    simp only [List.cons_append, pairwiseDisjoint, Bool.and_eq_true] at h
    exact ih h.2

theorem dropWhile_split (p : Fld → Bool) (l : List Fld) (h : l.any p = true) :
    ∃ pre a suf, l = pre ++ a :: suf ∧ p a = true ∧ l.dropWhile (fun x => !p x) = a :: suf := by
  induction l with
  | nil => simp at h
  | cons c l ih =>
    by_cases hc : p c = true
    · exact ⟨[], c, l, rfl, hc, by simp [List.dropWhile, hc]⟩
    · have hc' : p c = false := by simpa using hc
      simp only [List.any_cons, hc', Bool.false_or] at h
      obtain ⟨pre, a, suf, h1, h2, h3⟩ := ih h
      refine ⟨c :: pre, a, suf, by simp [h1], h2, ?_⟩
      simp [List.dropWhile, hc', h3]

/-! ### unpacking the checker -/

theorem mem_plainWrites (k : Kind) (x : Fld) : x ∈ plainWrites k ↔ x ∈ k.writes ∧ x.mask = 0 ∧ x.width ≠ 0 := by
  simp [plainWrites, List.mem_filter]

theorem disjoint_iff (a b : Fld) :
    disjoint a b = true ↔ (a.off + a.width ≤ b.off ∨ b.off + b.width ≤ a.off) := by
  show (decide (a.off + a.width ≤ b.off) || decide (b.off + b.width ≤ a.off)) = true ↔ _
  simp only [Bool.or_eq_true, decide_eq_true_eq]

theorem disjoint_byte (p : Fld) (o : Nat) :
    disjoint p ⟨"", o, 1, 0, ""⟩ = true ↔ (p.off + p.width ≤ o ∨ o + 1 ≤ p.off) := disjoint_iff _ _

/-- `LayoutOK` as propositions -/
structure Lay (k : Kind) : Prop where
  pd : pairwiseDisjoint (plainWrites k) = true
  inAlloc : ∀ x ∈ plainWrites k, x.off + x.width ≤ k.alloc
  flags : ∀ x ∈ k.writes, x.mask = 0 ∨ (x.off < k.alloc ∧
      ∀ p ∈ plainWrites k, (p.off + p.width ≤ x.off ∨ x.off + 1 ≤ p.off) ∨ (p.off = x.off ∧ p.width = 1))
  reads : ∀ r ∈ k.reads, readMatched k r = true
  names : ∀ x ∈ k.writes, (x.width ≠ 0 ∨ x.mask ≠ 0) ∨ (k.inlineName = true ∧ x.off = k.alloc)
  poff : k.payloadOff = k.alloc
  pname : k.payloadName = k.inlineName
  g2 : k.guard2 ≤ k.alloc + 1
  inl : k.inlineName = true → k.guardName = k.alloc ∧
      (∃ w ∈ k.writes, w.name = "name.len" ∧ w.off + 1 = k.alloc ∧ w.width = 1 ∧ w.mask = 0 ∧ w.cond = "") ∧
      (∃ w ∈ k.writes, w.name = "name" ∧ w.off = k.alloc ∧ w.width = 0 ∧ w.mask = 0 ∧ w.cond = "") ∧
      (∃ r ∈ k.reads, r.name = "name.len" ∧ r.off + 1 = k.alloc ∧ r.width = 1 ∧ r.mask = 0)

theorem layout_unpack (k : Kind) (hk : LayoutOK k = true) : Lay k := by
  simp only [LayoutOK, Bool.and_eq_true, List.all_eq_true, Bool.or_eq_true, decide_eq_true_eq, disjoint_byte] at hk
  obtain ⟨⟨⟨⟨⟨⟨⟨⟨⟨⟨⟨⟨h1, h2⟩, h3⟩, h4⟩, h5⟩, h6⟩, h7⟩, h8⟩, h9⟩, _⟩, _⟩, _⟩, _⟩ := hk
  refine ⟨h1, h2, h3, h4, h5, h6, h7, h9, ?_⟩
  intro hi
  rw [if_pos hi] at h8
  simp only [Bool.and_eq_true, decide_eq_true_eq, List.any_eq_true] at h8
  obtain ⟨⟨⟨g, w1, hw1, e1⟩, w2, hw2, e2⟩, r, hr, e3⟩ := h8
  exact ⟨g, ⟨w1, hw1, e1.1.1.1.1, e1.1.1.1.2, e1.1.1.2, e1.1.2, e1.2⟩,
    ⟨w2, hw2, e2.1.1.1.1, e2.1.1.1.2, e2.1.1.2, e2.1.2, e2.2⟩, r, hr, e3.1.1.1, e3.1.1.2, e3.1.2, e3.2⟩

theorem rm_plain (k : Kind) (r : Fld) (h : readMatched k r = true) (hw : r.width ≠ 0) (hm : r.mask = 0) :
    r.name ≠ "important" ∧
    (∃ w ∈ plainWrites k, w.name = r.name ∧ w.off = r.off ∧ w.width = r.width) ∧
    ∀ w ∈ k.writes, w.mask = 0 ∨ (r.off + r.width ≤ w.off ∨ w.off + 1 ≤ r.off) := by
  simp only [readMatched, if_neg hw, if_pos hm, Bool.and_eq_true, List.all_eq_true, List.any_eq_true,
    Bool.or_eq_true, decide_eq_true_eq, disjoint_byte] at h
  obtain ⟨⟨h1, w, hw, e⟩, h3⟩ := h
  exact ⟨h1, ⟨w, hw, e.1.1, e.1.2, e.2⟩, h3⟩

theorem rm_masked (k : Kind) (r : Fld) (h : readMatched k r = true) (hw : r.width ≠ 0) (hm : r.mask ≠ 0)
    (hn : r.name ≠ "important") :
    (∃ w ∈ plainWrites k, w.name = r.name ∧ w.off = r.off ∧ w.width = 1 ∧ r.width = 1) ∧
    ∀ w ∈ k.writes, w.mask = 0 ∨ (w.off = r.off → w.mask &&& r.mask = 0) := by
  simp only [readMatched, if_neg hw, if_neg hm, if_neg hn, Bool.and_eq_true, List.all_eq_true, List.any_eq_true,
    Bool.or_eq_true, decide_eq_true_eq] at h
  obtain ⟨⟨w, hw, e⟩, h3⟩ := h
  exact ⟨⟨w, hw, e.1.1.1, e.1.1.2, e.1.2, e.2⟩, h3⟩

theorem rm_flag (k : Kind) (r : Fld) (h : readMatched k r = true) (hw : r.width ≠ 0) (hm : r.mask ≠ 0)
    (hn : r.name = "important") :
    r.width = 1 ∧ r.mask < 256 ∧
    (k.writes.any (fun w => decide (w.mask = r.mask) && decide (w.off = r.off) && decide (w.cond = "important"))) = true ∧
    (∀ w ∈ k.writes, w.mask = 0 ∨ w.off ≠ r.off ∨ (w.mask = r.mask ∧ w.cond = "important") ∨ w.mask &&& r.mask = 0) ∧
    ∀ p ∈ k.writes.dropWhile (fun w => !(decide (w.mask = r.mask) && decide (w.off = r.off) && decide (w.cond = "important"))),
      p.mask ≠ 0 ∨ p.width = 0 ∨ (p.off + p.width ≤ r.off ∨ r.off + 1 ≤ p.off) := by
  simp only [readMatched, if_neg hw, if_neg hm, if_pos hn, Bool.and_eq_true, List.all_eq_true,
    Bool.or_eq_true, decide_eq_true_eq, disjoint_byte] at h
  obtain ⟨⟨⟨⟨h1, h2⟩, h3⟩, h4⟩, h5⟩ := h
  refine ⟨h1, h2, h3, ?_, ?_⟩
  · intro w hw
    rcases h4 w hw with h | h
    · rcases h with h | h
      · rcases h with h | h
        · exact Or.inl h
        · exact Or.inr (Or.inl (by simpa using h))
      · exact Or.inr (Or.inr (Or.inl h))
    · exact Or.inr (Or.inr (Or.inr h))
  · intro p hp
    rcases h5 p hp with h | h
    · rcases h with h | h
      · exact Or.inl (by simpa using h)
      · exact Or.inr (Or.inl h)
    · exact Or.inr (Or.inr h)

theorem tlen_le (k : Kind) (hk : Lay k) (m : Msg) : ∀ x ∈ k.writes, x.off + tlen m x ≤ hdrLen k m := by
  intro x hx
  unfold tlen hdrLen
  by_cases hm : x.mask = 0
  · by_cases hw : x.width = 0
    · rcases hk.names x hx with h | h
      · rcases h with h | h <;> contradiction
      · simp [hm, hw, h.1, h.2]
    · have := hk.inAlloc x ((mem_plainWrites k x).2 ⟨hx, hm, hw⟩)
      simp [hm, hw]; omega
  · rcases hk.flags x hx with h | h
    · contradiction
    · simp [hm]; omega

/-! ### the header after all writes -/

/-- the header part of `encode` -/
def hdr (k : Kind) (m : Msg) : Bytes :=
  k.writes.foldl (applyWrite k m (hdrLen k m + m.payload.length)) (List.replicate (hdrLen k m) 0)

theorem encode_eq (k : Kind) (m : Msg) : encode k m = hdr k m ++ m.payload := rfl

theorem hdr_length (k : Kind) (hk : Lay k) (m : Msg) : (hdr k m).length = hdrLen k m :=
  fold_length k m _ (hdrLen k m) k.writes (tlen_le k hk m) _ (by simp)

theorem later_plain (k : Kind) (hk : Lay k) (pre suf : List Fld) (w : Fld) (e : k.writes = pre ++ w :: suf)
    (hm : w.mask = 0) (hw : w.width ≠ 0) : ∀ x ∈ suf, x.mask = 0 → x.width ≠ 0 → compat w x := by
  intro x hx hmx hwx
  have h1 : plainWrites k = pre.filter (fun w => decide (w.mask = 0) && decide (w.width ≠ 0)) ++
      w :: suf.filter (fun w => decide (w.mask = 0) && decide (w.width ≠ 0)) := by
    unfold plainWrites
    rw [e, List.filter_append, List.filter_cons]
    simp [hm, hw]
  have h2 := hk.pd
  rw [h1] at h2
  exact pd_split _ _ w h2 x (by simp [List.mem_filter, hx, hmx, hwx])

/-- an unmasked write that is compatible with the plain write `w` leaves `w`'s window alone or rewrites it with `w`'s value -/
theorem keep_unmasked (k : Kind) (hk : Lay k) (m : Msg) (t : Nat) (w x : Fld) (hw : w ∈ plainWrites k)
    (hx : x ∈ k.writes) (hmx : x.mask = 0) (hcx : condOn m x.cond = true) (hcompat : x.width ≠ 0 → compat w x)
    (b : Bytes) (hb : b.length = hdrLen k m) :
    win (applyWrite k m t b x) w.off w.width = win b w.off w.width ∨
    win (applyWrite k m t b x) w.off w.width = beBytes w.width (fieldVal k m t w.name) := by
  have hxl := tlen_le k hk m x hx
  by_cases hwx : x.width = 0
  · left
    apply step_disj k m t b x _ hb hxl
    left
    rcases hk.names x hx with h | h
    · rcases h with h | h <;> contradiction
    · have := hk.inAlloc w hw
      omega
  · have htl : tlen m x = x.width := by simp [tlen, hmx, hwx]
    rcases hcompat hwx with h | h
    · left
      apply step_disj k m t b x _ hb hxl
      rw [htl]; exact h
    · right
      have := step_plain k m t b x _ hb (by rw [htl] at hxl; exact hxl) hmx hwx hcx
      rw [h.1, h.2.1, h.2.2]; exact this

/-- Case A: an active plain write into whose bytes no flag is OR-ed -/
theorem hdr_plain (k : Kind) (hk : Lay k) (m : Msg) (w : Fld) (hw : w ∈ plainWrites k)
    (hc : condOn m w.cond = true)
    (hfl : ∀ x ∈ k.writes, x.mask = 0 ∨ (w.off + w.width ≤ x.off ∨ x.off + 1 ≤ w.off)) :
    win (hdr k m) w.off w.width = beBytes w.width (fieldVal k m (hdrLen k m + m.payload.length) w.name) := by
  obtain ⟨hwm, hm0, hw0⟩ := (mem_plainWrites k w).1 hw
  obtain ⟨pre, suf, e⟩ := List.append_of_mem hwm
  have hall := tlen_le k hk m
  have hlater := later_plain k hk pre suf w e hm0 hw0
  have hsub : ∀ x ∈ suf, x ∈ k.writes := fun x hx => by rw [e]; simp [hx]
  unfold hdr
  rw [e] at hall ⊢
  apply fold_split k m _ (hdrLen k m) (fun b => win b w.off w.width = _) pre suf w hall _ (by simp)
  · intro b hb
    exact step_plain k m _ b w _ hb (hk.inAlloc w hw |> fun h => by unfold hdrLen; omega) hm0 hw0 hc
  · intro x hx b hb hP
    by_cases hcx : condOn m x.cond = true
    · by_cases hmx : x.mask = 0
      · rcases keep_unmasked k hk m _ w x hw (hsub x hx) hmx hcx (hlater x hx hmx) b hb with h | h
        · rw [h]; exact hP
        · exact h
      · show win _ _ _ = _
        rw [step_disj k m _ b x _ hb (hall x (by simp [hx]))]
        · exact hP
        · have : tlen m x = 1 := by simp [tlen, hmx]
          rw [this]
          rcases hfl x (hsub x hx) with h | h
          · contradiction
          · exact h
    · rw [step_off k m _ b x (by simpa using hcx)]; exact hP


theorem beBytes_one (v : Nat) : beBytes 1 v = [UInt8.ofNat v] := by simp [beBytes]

theorem toNat_ofNat_lt (v : Nat) (h : v < 256) : (UInt8.ofNat v).toNat = v := by
  rw [UInt8.toNat_ofNat']; exact Nat.mod_eq_of_lt h

theorem toNat_lt256 (y : UInt8) : y.toNat < 256 := UInt8.toNat_lt y

theorem toNat_or (y : UInt8) (mk : Nat) : (UInt8.ofNat (y.toNat ||| mk)).toNat = (y.toNat ||| mk) % 256 := by
  rw [UInt8.toNat_ofNat']

theorem condOn_important (m : Msg) : condOn m "important" = m.important := by
  simp [condOn]

/-- Case B: a one-byte plain field read through a mask that is disjoint from every flag OR-ed into that byte -/
theorem hdr_masked (k : Kind) (hk : Lay k) (m : Msg) (w : Fld) (hw : w ∈ plainWrites k)
    (hc : condOn m w.cond = true) (hw1 : w.width = 1) (rm : Nat)
    (hv : fieldVal k m (hdrLen k m + m.payload.length) w.name < 256)
    (hfl : ∀ x ∈ k.writes, x.mask = 0 ∨ (x.off = w.off → x.mask &&& rm = 0)) :
    ∃ y, win (hdr k m) w.off 1 = [y] ∧
      y.toNat &&& rm = fieldVal k m (hdrLen k m + m.payload.length) w.name &&& rm := by
  obtain ⟨hwm, hm0, hw0⟩ := (mem_plainWrites k w).1 hw
  obtain ⟨pre, suf, e⟩ := List.append_of_mem hwm
  have hall := tlen_le k hk m
  have hlater := later_plain k hk pre suf w e hm0 hw0
  have hsub : ∀ x ∈ suf, x ∈ k.writes := fun x hx => by rw [e]; simp [hx]
  have hL : w.off + w.width ≤ hdrLen k m := by have := hk.inAlloc w hw; unfold hdrLen; omega
  unfold hdr
  rw [e] at hall ⊢
  apply fold_split k m _ (hdrLen k m) (fun b => ∃ y, win b w.off 1 = [y] ∧ y.toNat &&& rm = _ &&& rm)
    pre suf w hall _ (by simp)
  · intro b hb
    have := step_plain k m (hdrLen k m + m.payload.length) b w _ hb hL hm0 hw0 hc
    rw [hw1, beBytes_one] at this
    exact ⟨_, this, by rw [toNat_ofNat_lt _ hv]⟩
  · intro x hx b hb hP
    by_cases hcx : condOn m x.cond = true
    · by_cases hmx : x.mask = 0
      · rcases keep_unmasked k hk m (hdrLen k m + m.payload.length) w x hw (hsub x hx) hmx hcx
          (hlater x hx hmx) b hb with h | h
        · rw [hw1] at h; show ∃ y, win _ _ _ = _ ∧ _; rw [h]; exact hP
        · rw [hw1, beBytes_one] at h
          exact ⟨_, h, by rw [toNat_ofNat_lt _ hv]⟩
      · by_cases hxo : x.off = w.off
        · obtain ⟨y, hy1, hy2⟩ := hP
          rw [← hxo] at hy1
          have := step_mask k m (hdrLen k m + m.payload.length) b x y hmx hcx hy1
          rw [hxo] at this
          refine ⟨_, this, ?_⟩
          rw [toNat_or, mask_keep _ _ _ (toNat_lt256 y), hy2]
          rcases hfl x (hsub x hx) with h | h
          · contradiction
          · exact h hxo
        · show ∃ y, win _ _ _ = _ ∧ _
          rw [step_disj k m _ b x _ hb (hall x (by simp [hx]))]
          · exact hP
          · have : tlen m x = 1 := by simp [tlen, hmx]
            rw [this]; omega
    · rw [step_off k m _ b x (by simpa using hcx)]; exact hP

/-- the inline name -/
theorem hdr_name (k : Kind) (hk : Lay k) (m : Msg) (hi : k.inlineName = true) :
    win (hdr k m) k.alloc m.name.length = m.name := by
  obtain ⟨_, _, ⟨wn, hwn, _, hoff, hw0, hm0, hc0⟩, _⟩ := hk.inl hi
  obtain ⟨pre, suf, e⟩ := List.append_of_mem hwn
  have hall := tlen_le k hk m
  have hsub : ∀ x ∈ suf, x ∈ k.writes := fun x hx => by rw [e]; simp [hx]
  have hL : hdrLen k m = k.alloc + m.name.length := by simp [hdrLen, hi]
  unfold hdr
  rw [e] at hall ⊢
  apply fold_split k m _ (hdrLen k m) (fun b => win b k.alloc m.name.length = m.name) pre suf wn hall _ (by simp)
  · intro b hb
    have := step_name k m (hdrLen k m + m.payload.length) b wn _ hb (by omega) hm0 hw0 (by simp [condOn, hc0])
    rw [hoff] at this; exact this
  · intro x hx b hb hP
    have hxw := hsub x hx
    by_cases hcx : condOn m x.cond = true
    · by_cases hmx : x.mask = 0
      · by_cases hwx : x.width = 0
        · rcases hk.names x hxw with h | h
          · rcases h with h | h <;> contradiction
          · have := step_name k m (hdrLen k m + m.payload.length) b x _ hb (by omega) hmx hwx hcx
            rw [h.2] at this; exact this
        · show win _ _ _ = _
          rw [step_disj k m _ b x _ hb (hall x (by simp [hx]))]
          · exact hP
          · have : tlen m x = x.width := by simp [tlen, hmx, hwx]
            rw [this]; right
            exact hk.inAlloc x ((mem_plainWrites k x).2 ⟨hxw, hmx, hwx⟩)
      · show win _ _ _ = _
        rw [step_disj k m _ b x _ hb (hall x (by simp [hx]))]
        · exact hP
        · have : tlen m x = 1 := by simp [tlen, hmx]
          rw [this]; right
          rcases hk.flags x hxw with h | h
          · contradiction
          · omega
    · rw [step_off k m _ b x (by simpa using hcx)]; exact hP


theorem win_replicate_one (L o : Nat) (h : o < L) : win (List.replicate L (0 : UInt8)) o 1 = [0] := by
  rw [win_one _ _ (by simpa using h)]; simp

/-- Case C, flag not requested: the flag bit stays clear -/
theorem hdr_flag_clear (k : Kind) (hk : Lay k) (m : Msg) (hf : m.fits k) (a : Fld) (ha : a ∈ k.writes)
    (ham : a.mask ≠ 0) (hi : m.important = false)
    (hoth : ∀ w ∈ k.writes, w.mask = 0 ∨ w.off ≠ a.off ∨ (w.mask = a.mask ∧ w.cond = "important") ∨
      w.mask &&& a.mask = 0) :
    ∃ y, win (hdr k m) a.off 1 = [y] ∧ y.toNat &&& a.mask = 0 := by
  have hall := tlen_le k hk m
  have hao : a.off < hdrLen k m := by
    rcases hk.flags a ha with h | h
    · contradiction
    · unfold hdrLen; omega
  have haf : ∀ p ∈ plainWrites k, (p.off + p.width ≤ a.off ∨ a.off + 1 ≤ p.off) ∨ (p.off = a.off ∧ p.width = 1) := by
    rcases hk.flags a ha with h | h
    · contradiction
    · exact h.2
  have := foldl_inv (fun b => b.length = hdrLen k m ∧ ∃ y, win b a.off 1 = [y] ∧ y.toNat &&& a.mask = 0)
    (applyWrite k m (hdrLen k m + m.payload.length)) k.writes ?_ (List.replicate (hdrLen k m) 0)
    ⟨by simp, 0, win_replicate_one _ _ hao, by simp⟩
  · exact this.2
  · intro x hx b ⟨hb, hP⟩
    refine ⟨step_length k m _ b x _ hb (hall x hx), ?_⟩
    by_cases hcx : condOn m x.cond = true
    · by_cases hmx : x.mask = 0
      · by_cases hwx : x.width = 0
        · rw [step_disj k m _ b x _ hb (hall x hx)]
          · exact hP
          · left
            rcases hk.names x hx with h | h
            · rcases h with h | h <;> contradiction
            · rcases hk.flags a ha with h' | h'
              · contradiction
              · omega
        · have hxp := (mem_plainWrites k x).2 ⟨hx, hmx, hwx⟩
          rcases haf x hxp with h | h
          · rw [step_disj k m _ b x _ hb (hall x hx)]
            · exact hP
            · have : tlen m x = x.width := by simp [tlen, hmx, hwx]
              rw [this]; omega
          · have hxl : x.off + x.width ≤ hdrLen k m := by
              have := hk.inAlloc x hxp; unfold hdrLen; omega
            have h1 := step_plain k m (hdrLen k m + m.payload.length) b x _ hb hxl hmx hwx hcx
            have hv := hf.1 x hxp
            rw [h.2] at h1 hv
            rw [h.1, beBytes_one] at h1
            refine ⟨_, h1, ?_⟩
            rw [toNat_ofNat_lt _ (by simpa using hv)]
            exact hf.2.1 a ha ham x hxp h.1
      · by_cases hxo : x.off = a.off
        · obtain ⟨y, hy1, hy2⟩ := hP
          rw [← hxo] at hy1
          have := step_mask k m (hdrLen k m + m.payload.length) b x y hmx hcx hy1
          rw [hxo] at this
          refine ⟨_, this, ?_⟩
          rw [toNat_or, mask_keep _ _ _ (toNat_lt256 y), hy2]
          rcases hoth x hx with h | h | h | h
          · contradiction
          · contradiction
          · rw [h.2, condOn_important, hi] at hcx; contradiction
          · exact h
        · rw [step_disj k m _ b x _ hb (hall x hx)]
          · exact hP
          · have : tlen m x = 1 := by simp [tlen, hmx]
            rw [this]; omega
    · rw [step_off k m _ b x (by simpa using hcx)]; exact hP

/-- Case C, flag requested: the flag bits are set -/
theorem hdr_flag_set (k : Kind) (hk : Lay k) (m : Msg) (pre suf : List Fld) (a : Fld)
    (e : k.writes = pre ++ a :: suf)
    (ham : a.mask ≠ 0) (ham2 : a.mask < 256) (hac : a.cond = "important") (hi : m.important = true)
    (hord : ∀ p ∈ suf, p.mask ≠ 0 ∨ p.width = 0 ∨ (p.off + p.width ≤ a.off ∨ a.off + 1 ≤ p.off)) :
    ∃ y, win (hdr k m) a.off 1 = [y] ∧ y.toNat &&& a.mask = a.mask := by
  have hall := tlen_le k hk m
  have ha : a ∈ k.writes := by rw [e]; simp
  have hsub : ∀ x ∈ suf, x ∈ k.writes := fun x hx => by rw [e]; simp [hx]
  have hao : a.off < k.alloc := by
    rcases hk.flags a ha with h | h
    · contradiction
    · exact h.1
  have haL : a.off < hdrLen k m := by unfold hdrLen; omega
  unfold hdr
  rw [e] at hall ⊢
  apply fold_split k m _ (hdrLen k m) (fun b => ∃ y, win b a.off 1 = [y] ∧ y.toNat &&& a.mask = a.mask)
    pre suf a hall _ (by simp)
  · intro b hb
    have h1 := win_one b a.off (by omega)
    have := step_mask k m (hdrLen k m + m.payload.length) b a _ ham (by rw [hac, condOn_important, hi]) h1
    exact ⟨_, this, by rw [toNat_or, mask_set _ _ ham2]⟩
  · intro x hx b hb hP
    have hxw := hsub x hx
    have hxl := hall x (by simp [hx])
    by_cases hcx : condOn m x.cond = true
    · by_cases hmx : x.mask = 0
      · show ∃ y, win _ _ _ = _ ∧ _
        rw [step_disj k m _ b x _ hb hxl]
        · exact hP
        · by_cases hwx : x.width = 0
          · left
            rcases hk.names x hxw with h | h
            · rcases h with h | h <;> contradiction
            · omega
          · have : tlen m x = x.width := by simp [tlen, hmx, hwx]
            rw [this]
            rcases hord x hx with h | h | h
            · contradiction
            · contradiction
            · omega
      · by_cases hxo : x.off = a.off
        · obtain ⟨y, hy1, hy2⟩ := hP
          rw [← hxo] at hy1
          have := step_mask k m (hdrLen k m + m.payload.length) b x y hmx hcx hy1
          rw [hxo] at this
          exact ⟨_, this, by rw [toNat_or, mask_stay _ _ _ ham2 hy2]⟩
        · show ∃ y, win _ _ _ = _ ∧ _
          rw [step_disj k m _ b x _ hb hxl]
          · exact hP
          · have : tlen m x = 1 := by simp [tlen, hmx]
            rw [this]; omega
    · rw [step_off k m _ b x (by simpa using hcx)]; exact hP

/-! ### E. reading the frame back -/

theorem readFld_eq (b : Bytes) (r : Fld) :
    readFld b r = if r.mask = 0 then beVal (win b r.off r.width) else beVal (win b r.off r.width) &&& r.mask := rfl

theorem active_iff (k : Kind) (m : Msg) (r : Fld) : active k m r = true ↔
    r.name = "important" ∨
    ∃ w ∈ plainWrites k, w.name = r.name ∧ w.off = r.off ∧ w.width = r.width ∧ condOn m w.cond = true := by
  simp only [active, Bool.or_eq_true, decide_eq_true_eq, List.any_eq_true, Bool.and_eq_true]
  constructor
  · rintro (h | ⟨w, hw, e⟩)
    · exact Or.inl h
    · exact Or.inr ⟨w, hw, e.1.1.1, e.1.1.2, e.1.2, e.2⟩
  · rintro (h | ⟨w, hw, e⟩)
    · exact Or.inl h
    · exact Or.inr ⟨w, hw, ⟨⟨e.1, e.2.1⟩, e.2.2.1⟩, e.2.2.2⟩

theorem read_plain (k : Kind) (hk : Lay k) (m : Msg) (hf : m.fits k) (r : Fld) (hr : r ∈ k.reads)
    (hw : r.width ≠ 0) (hm : r.mask = 0) (ha : active k m r = true) :
    readFld (encode k m) r = expected k m r := by
  obtain ⟨hn, _, hfl⟩ := rm_plain k r (hk.reads r hr) hw hm
  rcases (active_iff k m r).1 ha with h | ⟨w, hwp, e1, e2, e3, hc⟩
  · contradiction
  · rw [← e2, ← e3] at hfl
    have h1 := hdr_plain k hk m w hwp hc hfl
    have h2 : w.off + w.width ≤ (hdr k m).length := by
      rw [hdr_length k hk m]; have := hk.inAlloc w hwp; unfold hdrLen; omega
    rw [readFld_eq, if_pos hm, encode_eq, ← e2, ← e3, win_append _ _ _ _ h2, h1,
      beVal_beBytes _ _ (hf.1 w hwp)]
    simp [expected, hm, e1]

theorem read_masked (k : Kind) (hk : Lay k) (m : Msg) (hf : m.fits k) (r : Fld) (hr : r ∈ k.reads)
    (hw : r.width ≠ 0) (hm : r.mask ≠ 0) (hn : r.name ≠ "important") (ha : active k m r = true) :
    readFld (encode k m) r = expected k m r := by
  obtain ⟨⟨_, _, _, _, _, hr1⟩, hfl⟩ := rm_masked k r (hk.reads r hr) hw hm hn
  rcases (active_iff k m r).1 ha with h | ⟨w, hwp, e1, e2, e3, hc⟩
  · contradiction
  · rw [← e2] at hfl
    have hw1 : w.width = 1 := by omega
    have hv : fieldVal k m (hdrLen k m + m.payload.length) w.name < 256 := by
      have := hf.1 w hwp; rw [hw1] at this; simpa using this
    obtain ⟨y, hy1, hy2⟩ := hdr_masked k hk m w hwp hc hw1 r.mask hv hfl
    have h2 : w.off + 1 ≤ (hdr k m).length := by
      rw [hdr_length k hk m]; have := hk.inAlloc w hwp; unfold hdrLen; omega
    rw [readFld_eq, if_neg hm, encode_eq, ← e2, hr1, win_append _ _ _ _ h2, hy1, beVal_single, hy2]
    simp [expected, hm, hn, e1]

theorem read_flag (k : Kind) (hk : Lay k) (m : Msg) (hf : m.fits k) (r : Fld) (hr : r ∈ k.reads)
    (hw : r.width ≠ 0) (hm : r.mask ≠ 0) (hn : r.name = "important") :
    readFld (encode k m) r = expected k m r := by
  obtain ⟨hr1, hr2, hany, hoth, hord⟩ := rm_flag k r (hk.reads r hr) hw hm hn
  obtain ⟨pre, a, suf, e, pa, hdw⟩ := dropWhile_split _ _ hany
  simp only [Bool.and_eq_true, decide_eq_true_eq] at pa
  obtain ⟨⟨pa1, pa2⟩, pa3⟩ := pa
  rw [hdw] at hord
  rw [← pa1, ← pa2] at hoth
  rw [← pa2] at hord
  have ha : a ∈ k.writes := by rw [e]; simp
  have ham : a.mask ≠ 0 := by rw [pa1]; exact hm
  have h2 : a.off + 1 ≤ (hdr k m).length := by
    rw [hdr_length k hk m]
    rcases hk.flags a ha with h | h
    · contradiction
    · unfold hdrLen; omega
  have key : ∃ y, win (hdr k m) a.off 1 = [y] ∧ y.toNat &&& a.mask = if m.important = true then a.mask else 0 := by
    cases hi : m.important
    · simpa using hdr_flag_clear k hk m hf a ha ham hi hoth
    · simpa using hdr_flag_set k hk m pre suf a e ham (by rw [pa1]; exact hr2) pa3 hi
        (fun p hp => hord p (List.mem_cons_of_mem _ hp))
  obtain ⟨y, hy1, hy2⟩ := key
  rw [readFld_eq, if_neg hm, encode_eq, ← pa2, hr1, win_append _ _ _ _ h2, hy1, beVal_single, ← pa1, hy2]
  simp [expected, hn, ← pa1, ham]

theorem read_ok (k : Kind) (hk : Lay k) (m : Msg) (hf : m.fits k) (r : Fld) (hr : r ∈ k.reads)
    (hw : r.width ≠ 0) (ha : active k m r = true) : readFld (encode k m) r = expected k m r := by
  by_cases hm : r.mask = 0
  · exact read_plain k hk m hf r hr hw hm ha
  · by_cases hn : r.name = "important"
    · exact read_flag k hk m hf r hr hw hm hn
    · exact read_masked k hk m hf r hr hw hm hn ha


/-! ### the receive case -/

theorem parse_short (k : Kind) (f : Bytes) (h : f.length < k.guard) : parse k f = .dropped := by
  simp [parse, h]

theorem parse_total (k : Kind) (f : Bytes) :
    (∃ p, parse k f = .ok p) ∨ parse k f = .dropped ∨ parse k f = .recovered := by
  unfold parse
  repeat' split
  all_goals first
    | (simp; done)
    | (dsimp only; split <;> simp)

theorem parse_ok_payload_suffix (k : Kind) (f : Bytes) (p : Parsed) (h : parse k f = .ok p) :
    ∃ pre, f = pre ++ p.payload := by
  unfold parse at h
  repeat' split at h
  all_goals first
    | (simp at h; done)
    | (simp only [HRes.ok.injEq] at h; subst h; exact ⟨_, (List.take_append_drop _ f).symm⟩)
    | (dsimp only at h
       split at h
       · simp at h
       · simp only [HRes.ok.injEq] at h; subst h; exact ⟨_, (List.take_append_drop _ f).symm⟩)

theorem parse_with_name (k : Kind) (f : Bytes) (h1 : k.guard ≤ f.length) (h2 : k.guard2 ≤ f.length)
    (hp : k.payloadName = true) (lb : UInt8) (h3 : f[k.guardName - 1]? = some lb)
    (h4 : k.guardName + lb.toNat ≤ f.length) :
    parse k f = .ok ⟨(k.reads.filter (fun r => r.width ≠ 0)).map (fun r => (r.name, readFld f r)),
      (f.drop k.guardName).take lb.toNat, f.drop (k.guardName + lb.toNat)⟩ := by
  unfold parse
  rw [if_neg (by omega), if_neg (by omega), if_pos hp]
  simp only [h3]
  rw [if_neg (by omega)]

theorem parse_without_name (k : Kind) (f : Bytes) (h1 : k.guard ≤ f.length) (h2 : k.guard2 ≤ f.length)
    (hp : k.payloadName = false) (h3 : k.payloadOff ≤ f.length) :
    parse k f = .ok ⟨(k.reads.filter (fun r => r.width ≠ 0)).map (fun r => (r.name, readFld f r)),
      [], f.drop k.payloadOff⟩ := by
  unfold parse
  rw [if_neg (by omega), if_neg (by omega), if_neg (by simp [hp]), if_neg (by omega)]

theorem win_one_get (b : Bytes) (o : Nat) (y : UInt8) (h : win b o 1 = [y]) : b[o]? = some y := by
  have := win_getElem? b o 1 0
  rw [h] at this
  simpa using this.symm

theorem fields_ok (k : Kind) (hk : Lay k) (m : Msg) (hf : m.fits k) :
    ∀ x ∈ expectedFields k m,
      x ∈ (k.reads.filter (fun r => r.width ≠ 0)).map (fun r => (r.name, readFld (encode k m) r)) := by
  intro x hx
  simp only [expectedFields, List.mem_map, List.mem_filter] at hx
  obtain ⟨r, ⟨⟨hr, hw⟩, ha⟩, rfl⟩ := hx
  simp only [List.mem_map, List.mem_filter]
  refine ⟨r, ⟨hr, hw⟩, ?_⟩
  rw [read_ok k hk m hf r hr (by simpa using hw) ha]

theorem fieldVal_namelen (k : Kind) (m : Msg) (t : Nat) : fieldVal k m t "name.len" = m.name.length := by
  simp [fieldVal]

theorem encode_length (k : Kind) (hk : Lay k) (m : Msg) :
    (encode k m).length = hdrLen k m + m.payload.length := by
  rw [encode_eq, List.length_append, hdr_length k hk m]

theorem encode_drop (k : Kind) (hk : Lay k) (m : Msg) : (encode k m).drop (hdrLen k m) = m.payload := by
  rw [encode_eq, ← hdr_length k hk m, List.drop_left]

/-- the length byte of the inline name -/
theorem namelen_byte (k : Kind) (hk : Lay k) (m : Msg) (hi : k.inlineName = true) :
    (encode k m)[k.alloc - 1]? = some (UInt8.ofNat m.name.length) := by
  obtain ⟨_, ⟨wl, hwl, hn, hoff, hw1, hm0, hc0⟩, _, ⟨r, hr, _, hroff, hrw, hrm⟩⟩ := hk.inl hi
  obtain ⟨_, _, hfl⟩ := rm_plain k r (hk.reads r hr) (by omega) hrm
  have hwp : wl ∈ plainWrites k := (mem_plainWrites k wl).2 ⟨hwl, hm0, by omega⟩
  have e1 : r.off = wl.off := by omega
  rw [e1, hrw] at hfl
  have h1 := hdr_plain k hk m wl hwp (by simp [condOn, hc0]) (fun x hx => by rw [hw1]; exact hfl x hx)
  rw [hw1, beBytes_one, hn, fieldVal_namelen] at h1
  have h2 : k.alloc - 1 = wl.off := by omega
  rw [h2, encode_eq]
  apply win_one_get
  rw [win_append _ _ _ _ (by rw [hdr_length k hk m]; unfold hdrLen; omega)]
  exact h1

theorem parse_encode_inline (k : Kind) (hk : Lay k) (m : Msg) (hf : m.fits k) (hi : k.inlineName = true) :
    parse k (encode k m) = .ok ⟨(k.reads.filter (fun r => r.width ≠ 0)).map
      (fun r => (r.name, readFld (encode k m) r)), m.name, m.payload⟩ := by
  obtain ⟨hg, _, _, _⟩ := hk.inl hi
  have hL : hdrLen k m = k.alloc + m.name.length := by simp [hdrLen, hi]
  have hlen := encode_length k hk m
  have hg2 := hk.g2
  obtain ⟨_, _, hn, hp, hgd⟩ := hf
  have hb := namelen_byte k hk m hi
  have ht : (UInt8.ofNat m.name.length).toNat = m.name.length := toNat_ofNat_lt _ hn
  rw [parse_with_name k (encode k m) (by omega) (by omega) (by rw [hk.pname, hi]) _ (by rw [hg]; exact hb)
    (by rw [hg, ht]; omega)]
  rw [hg, ht, ← hL, encode_drop k hk m]
  congr 2
  show win (encode k m) k.alloc m.name.length = m.name
  rw [encode_eq, win_append _ _ _ _ (by rw [hdr_length k hk m]; omega)]
  exact hdr_name k hk m hi

theorem parse_encode_plainkind (k : Kind) (hk : Lay k) (m : Msg) (hf : m.fits k) (hi : k.inlineName = false) :
    parse k (encode k m) = .ok ⟨(k.reads.filter (fun r => r.width ≠ 0)).map
      (fun r => (r.name, readFld (encode k m) r)), [], m.payload⟩ := by
  have hL : hdrLen k m = k.alloc := by simp [hdrLen, hi]
  have hlen := encode_length k hk m
  have hg2 := hk.g2
  obtain ⟨_, _, hn, hp, hgd⟩ := hf
  rw [parse_without_name k (encode k m) (by omega) (by omega) (by rw [hk.pname, hi]) (by rw [hk.poff]; omega)]
  rw [hk.poff, ← hL, encode_drop k hk m]

/-- writer and reader tables agree and the fields do not overlap ⇒ the receive case gets back what was sent -/
theorem parse_encode (k : Kind) (hk : LayoutOK k = true) (m : Msg) (hf : m.fits k) :
    ∃ p, parse k (encode k m) = .ok p ∧
         p.payload = m.payload ∧
         p.name = (if k.inlineName then m.name else []) ∧
         ∀ x ∈ expectedFields k m, x ∈ p.fields := by
  have hl := layout_unpack k hk
  cases hi : k.inlineName
  · exact ⟨_, parse_encode_plainkind k hl m hf hi, rfl, by simp, fields_ok k hl m hf⟩
  · exact ⟨_, parse_encode_inline k hl m hf hi, rfl, by simp, fields_ok k hl m hf⟩

end ErgoVerif.Frame

package main

import (
	"fmt"
	"go/ast"
	"strings"
)

// Generated/LinkRace.lean: for the local branch of every RouteLink*/RouteMonitor* (node/core.go): how many
// times the lookup table of the target kind is consulted (1 = check, then add; ≥2 = the target is looked up again
// after the relation was inserted), and whether unregisterProcess deletes the process from the table before it
// drains the relations (node/node.go).

func init() {
	generators = append(generators, generator{name: "LinkRace", run: genLinkRace, fallback: linkRaceFallback})
}

const linkRaceFallback = `namespace ErgoVerif.Gen.LinkRace
def lookups : List (String × Nat) := []
def recheckAfterAdd : Bool := false
def deleteBeforeDrain : Bool := false
end ErgoVerif.Gen.LinkRace
`

func genLinkRace() (string, error) {
	core, err := parseFile("node/core.go")
	if err != nil {
		return "", err
	}
	table := map[string]string{"PID": "n.processes", "ProcessID": "n.names", "Alias": "n.aliases", "Event": "n.events"}
	var rows []string
	all := true
	for _, op := range []string{"Link", "Monitor"} {
		for _, kind := range []string{"PID", "ProcessID", "Alias", "Event"} {
			name := "Route" + op + kind
			fd := funcDecl(core, "node", name)
			if fd == nil {
				return "", fmt.Errorf("node.%s not found", name)
			}
			// the local branch: `if n.name == target.Node { … }`
			var local *ast.BlockStmt
			ast.Inspect(fd.Body, func(n ast.Node) bool {
				is, ok := n.(*ast.IfStmt)
				if !ok || local != nil {
					return local == nil
				}
				if be, ok := is.Cond.(*ast.BinaryExpr); ok {
					s := selName(be.X) + "==" + selName(be.Y)
					if s == "n.name==target.Node" || s == "target.Node==n.name" {
						local = is.Body
					}
				}
				return local == nil
			})
			if local == nil {
				return "", fmt.Errorf("node.%s: local branch not found", name)
			}
			loads, adds := 0, 0
			addPos, lastLoadPos := 0, 0
			pos := 0
			ast.Inspect(local, func(n ast.Node) bool {
				c, ok := n.(*ast.CallExpr)
				if !ok {
					return true
				}
				pos++
				fn := selName(c.Fun)
				if fn == table[kind]+".Load" {
					loads++
					lastLoadPos = pos
				}
				if strings.HasPrefix(fn, "n.targetManager.Add") {
					adds++
					addPos = pos
				}
				return true
			})
			if loads == 0 || adds == 0 {
				return "", fmt.Errorf("node.%s: lookup or relation insert not found in the local branch", name)
			}
			re := loads >= 2 && lastLoadPos > addPos
			if !re {
				all = false
			}
			rows = append(rows, fmt.Sprintf("  (\"%s\", %d)", name, loads))
		}
	}
	nf, err := parseFile("node/node.go")
	if err != nil {
		return "", err
	}
	up := funcDecl(nf, "node", "unregisterProcess")
	if up == nil {
		return "", fmt.Errorf("node.unregisterProcess not found")
	}
	delPos, drainPos, pos := 0, 0, 0
	ast.Inspect(up.Body, func(n ast.Node) bool {
		c, ok := n.(*ast.CallExpr)
		if !ok {
			return true
		}
		pos++
		fn := selName(c.Fun)
		if fn == "n.processes.Delete" && delPos == 0 {
			delPos = pos
		}
		if fn == "n.RouteTerminatePID" && drainPos == 0 {
			drainPos = pos
		}
		return true
	})
	if delPos == 0 || drainPos == 0 {
		return "", fmt.Errorf("unregisterProcess: table delete / RouteTerminatePID not found")
	}
	var sb strings.Builder
	sb.WriteString("namespace ErgoVerif.Gen.LinkRace\n/-- (function, number of lookups of the target's table in the local branch) -/\ndef lookups : List (String × Nat) := [\n")
	sb.WriteString(strings.Join(rows, ",\n") + "]\n")
	fmt.Fprintf(&sb, "/-- every RouteLink*/RouteMonitor* looks the target up again after inserting the relation -/\ndef recheckAfterAdd : Bool := %s\n", leanBool(all))
	fmt.Fprintf(&sb, "/-- unregisterProcess removes the process from the table before it drains the relations on it -/\ndef deleteBeforeDrain : Bool := %s\n", leanBool(delPos < drainPos))
	sb.WriteString("end ErgoVerif.Gen.LinkRace\n")
	return sb.String(), nil
}

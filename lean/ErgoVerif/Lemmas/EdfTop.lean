import ErgoVerif.Lemmas.EdfRound
/-! top level (`edf.Decode ∘ edf.Encode`) and the full-strength well-formedness predicates used by `Props/C11` -/
namespace ErgoVerif.Edf
open ErgoVerif.Generated.Edt

/-- state.decodeType only matters for the leaf decoders and decodeAny -/
theorem dec_dt (o : Opts) (fuel : Nat) (t : Ty) (bs : Bytes) (h : t.leafTag = none) (ha : t ≠ .any) :
    dec o fuel true t bs = dec o fuel false t bs := by
  cases fuel with
  | zero => simp [dec]
  | succ f =>
    cases t <;> simp [Ty.leafTag] at h <;> (try simp at ha) <;> (try simp [dec])
    rename_i nm t'
    cases t' <;> simp [dec]

theorem topNorm_id (t : Ty) (v : Val) (h1 : t ≠ .any) (h2 : ¬ (t = .error ∧ v = .nil)) : topNorm t v = some (t, v) := by
  cases t <;> cases v <;> simp_all [topNorm]

/-- edf.Decode ∘ edf.Encode -/
theorem decodeRaw_encode (o : Opts) (hc : CachesConsistent o) (t : Ty) (v : Val) (bs rest : Bytes) (fuel : Nat)
    (he : encode o t v = some bs) (hd : DescOK o t) (hl : (encTy o t).length < 65536) (hg : Good o t v)
    (hf : v.depth ≤ fuel) : decodeRaw o fuel (bs ++ rest) = .ok (some (t, v), rest) := by
  unfold encode at he
  split at he
  · rename_i hcond
    simp only [Option.map_eq_some_iff] at he
    obtain ⟨body, hb, rfl⟩ := he
    have hne : t ≠ .any := by
      intro h; subst h; simp at hcond
    have hnn : ¬ (t = .error ∧ v = .nil) := by
      intro ⟨h1, h2⟩; subst h1; subst h2; simp at hcond
    have htn := topNorm_id t v hne hnn
    have ih := dec_encB o hc v t body rest fuel hb hg hf
    have hgd := getDecoder_hdr o hc t hd hl hne true (body ++ rest)
    unfold decodeRaw
    rw [List.append_assoc, hgd]
    simp only
    by_cases hcomp : t.composite = true
    · have hlt : t.leafTag = none := by cases t <;> simp [Ty.composite] at hcomp <;> rfl
      simp only [hcomp, ↓reduceIte, dec_dt o fuel t _ hlt hne, ih, htn]
    · simp only [hcomp, Bool.false_eq_true, ↓reduceIte, ih, htn]
  · simp at he

/-- `DescOK` without the restriction on map key types that the current decoder needs
    (a Go map key type only has to be comparable) -/
def DescWF (o : Opts) : Ty → Prop
  | .slice t => DescWF o t
  | .array n t => n < 4294967296 ∧ ¬ (t.size > 0 ∧ n * t.size ≥ uintptrLimit) ∧ DescWF o t
  | .map k v => k.comparable = true ∧ DescWF o k ∧ DescWF o v
  | .named nm t => RegOK o nm (.named nm t)
  | .struct nm fs => RegOK o nm (.struct nm fs)
  | .marsh nm sz => RegOK o nm (.marsh nm sz)
  | _ => True

mutual
/-- `Good` without the exclusion of zero-width element types: what a Go value of the type satisfies
    (registered dynamic types, distinct hashable map keys, lengths below 2^32) plus canonical form
    (quiet float32 NaNs, atoms fixed by the two mappings, sentinels present in the error cache) -/
def WF (o : Opts) : Ty → Val → Prop
  | .any, .any t v => DescWF o t ∧ (encTy o t).length < 65536 ∧ WF o t v
  | .slice t, .list vs => vs.length < lim32 ∧ WFs o t vs
  | .array _ t, .list vs => WFs o t vs
  | .map k v, .map ps => ps.length < lim32 ∧ Pairs.KeysOK .nil ps ∧ WFp o k v ps
  | .named _ (.slice t), .list vs => vs.length < lim32 ∧ WFs o t vs
  | .named _ (.array _ t), .list vs => WFs o t vs
  | .named _ (.map k v), .map ps => ps.length < lim32 ∧ Pairs.KeysOK .nil ps ∧ WFp o k v ps
  | .struct _ fs, .list vs => WFf o fs vs
  | .named _ t, v => LeafGood o t v
  | t, v => LeafGood o t v
def WFs (o : Opts) : Ty → Vals → Prop
  | _, .nil => True
  | t, .cons v vs => WF o t v ∧ WFs o t vs
def WFp (o : Opts) : Ty → Ty → Pairs → Prop
  | _, _, .nil => True
  | kt, vt, .cons k v ps => WF o kt k ∧ WF o vt v ∧ WFp o kt vt ps
def WFf (o : Opts) : Tys → Vals → Prop
  | .cons t ts, .cons v vs => WF o t v ∧ WFf o ts vs
  | _, _ => True
end

theorem or40 (b : UInt8) : (b ||| 0x40) ||| 0x40 = b ||| 0x40 := by
  rw [UInt8.or_assoc]; rfl

theorem quiet32_shape (a b c d : UInt8) :
    quiet32 [a, b, c, d] = [a, b, c, d] ∨ quiet32 [a, b, c, d] = [a, b ||| 0x40, c, d] := by
  simp only [quiet32]; split <;> simp

/-- quieting is idempotent -/
theorem quiet32_idem (a b c d : UInt8) : quiet32 (quiet32 [a, b, c, d]) = quiet32 [a, b, c, d] := by
  by_cases h : ((a &&& 0x7f == 0x7f) && (b &&& 0x80 == 0x80) && !((b &&& 0x7f == 0) && c == 0 && d == 0)) = true
  · have h1 : quiet32 [a, b, c, d] = [a, b ||| 0x40, c, d] := by simp only [quiet32, h, ↓reduceIte]
    rw [h1]
    rcases quiet32_shape a (b ||| 0x40) c d with h2 | h2
    · exact h2
    · rw [h2, or40]
  · have h1 : quiet32 [a, b, c, d] = [a, b, c, d] := by simp only [quiet32, h]; simp
    rw [h1, h1]

theorem topNorm_cases (t0 : Ty) (v0 : Val) (t : Ty) (v : Val) (h : topNorm t0 v0 = some (t, v)) :
    (t0 = .any ∧ v0 = .any t v) ∨ (t0 ≠ .any ∧ ¬ (t0 = .error ∧ v0 = .nil) ∧ t = t0 ∧ v = v0) := by
  cases t0 <;> cases v0 <;> simp [topNorm] at h <;> (obtain ⟨rfl, rfl⟩ := h) <;> simp

end ErgoVerif.Edf

package main

import (
	"fmt"
	"os"
	"reflect"
	"sync"
	"time"

	"ergo.services/ergo"
	"ergo.services/ergo/act"
	"ergo.services/ergo/gen"
	"ergo.services/ergo/lib"
	"ergo.services/ergo/net/edf"
)

// C14 part 3 — two real in-process nodes over loopback TCP with observer actors.
// Scenarios: for every target kind (pid, name, alias, event, node) × {link, monitor}:
//   * remote termination while connected  -> exactly one exit/down carrying the remote reason
//   * connection cut by the dialing node / by the accepting node (Disconnect)
//                                         -> exactly one exit/down with ErrNoConnection
//   * peer node stopped                   -> exactly one exit/down with ErrNoConnection
// calls in flight when the connection is cut return within their timeout; after a restart of the
// peer under the same name identifiers of the old incarnation are refused with ErrProcessIncarnation
// and never reach a process of the new incarnation.
// The nodes use an in-memory registrar (no shared port 4499) and acceptor ports derived from the pid.

func init() { c14Parts = append(c14Parts, c14Nodes) }

// ---- in-memory registrar ------------------------------------------------------------------------

type c14reg struct {
	mu     sync.Mutex
	routes map[gen.Atom][]gen.Route
}

type c14registrar struct {
	reg  *c14reg
	node gen.Atom
}

func (r *c14registrar) Register(node gen.NodeRegistrar, routes gen.RegisterRoutes) (gen.StaticRoutes, error) {
	r.reg.mu.Lock()
	r.node = node.Name()
	r.reg.routes[node.Name()] = routes.Routes
	r.reg.mu.Unlock()
	return gen.StaticRoutes{}, nil
}
func (r *c14registrar) Resolver() gen.Resolver { return r }
func (r *c14registrar) Resolve(node gen.Atom) ([]gen.Route, error) {
	r.reg.mu.Lock()
	defer r.reg.mu.Unlock()
	if rs, ok := r.reg.routes[node]; ok && len(rs) > 0 {
		return rs, nil
	}
	return nil, gen.ErrNoRoute
}
func (r *c14registrar) ResolveProxy(gen.Atom) ([]gen.ProxyRoute, error) { return nil, gen.ErrNoRoute }
func (r *c14registrar) ResolveApplication(gen.Atom) ([]gen.ApplicationRoute, error) {
	return nil, gen.ErrNoRoute
}
func (r *c14registrar) RegisterProxy(gen.Atom) error                        { return gen.ErrUnsupported }
func (r *c14registrar) UnregisterProxy(gen.Atom) error                      { return gen.ErrUnsupported }
func (r *c14registrar) RegisterApplicationRoute(gen.ApplicationRoute) error { return nil }
func (r *c14registrar) UnregisterApplicationRoute(gen.Atom) error           { return nil }
func (r *c14registrar) Nodes() ([]gen.Atom, error)                          { return nil, gen.ErrUnsupported }
func (r *c14registrar) Config(...string) (map[string]any, error)            { return nil, gen.ErrUnsupported }
func (r *c14registrar) ConfigItem(string) (any, error)                      { return nil, gen.ErrUnsupported }
func (r *c14registrar) Event() (gen.Event, error)                           { return gen.Event{}, gen.ErrUnsupported }
func (r *c14registrar) Info() gen.RegistrarInfo                             { return gen.RegistrarInfo{Server: "c14-mem"} }
func (r *c14registrar) Terminate() {
	r.reg.mu.Lock()
	delete(r.reg.routes, r.node)
	r.reg.mu.Unlock()
}
func (r *c14registrar) Version() gen.Version { return gen.Version{Name: "c14-mem", Release: "1"} }

// ---- observer actor -----------------------------------------------------------------------------------

type c14event struct {
	At  gen.PID
	Msg any
}

type c14rec struct {
	mu  sync.Mutex
	evs []c14event
}

func (r *c14rec) add(at gen.PID, m any) {
	r.mu.Lock()
	r.evs = append(r.evs, c14event{at, m})
	r.mu.Unlock()
}
func (r *c14rec) at(pid gen.PID) []any {
	r.mu.Lock()
	defer r.mu.Unlock()
	var res []any
	for _, e := range r.evs {
		if e.At == pid {
			res = append(res, e.Msg)
		}
	}
	return res
}

type c14cmd struct {
	f    func(a *c14actor)
	done chan struct{}
}

type c14payload struct{ N int } // never crosses the wire: only used locally

type c14actor struct {
	act.Actor
	rec *c14rec
}

func c14factory() gen.ProcessBehavior { return &c14actor{} }

func (a *c14actor) Init(args ...any) error {
	a.rec = args[0].(*c14rec)
	a.SetTrapExit(true)
	return nil
}
func (a *c14actor) HandleMessage(from gen.PID, message any) error {
	if c, ok := message.(c14cmd); ok {
		c.f(a)
		close(c.done)
		return nil
	}
	if err, ok := message.(error); ok && err == gen.TerminateReasonShutdown {
		return gen.TerminateReasonShutdown // "please terminate with this reason"
	}
	if b, ok := message.([]byte); ok && len(b) > 8 {
		message = append([]byte(nil), b[:8]...) // numbered streams (c13nodes): keep the number, not the payload
	}
	a.rec.add(a.PID(), message)
	return nil
}
func (a *c14actor) HandleCall(from gen.PID, ref gen.Ref, request any) (any, error) {
	if s, ok := request.(string); ok && s == "noreply" {
		return nil, nil // asynchronous handling: never answered
	}
	return "pong", nil
}
func (a *c14actor) HandleEvent(ev gen.MessageEvent) error { a.rec.add(a.PID(), ev); return nil }

// ---- node pair ----------------------------------------------------------------------------------------

type c14pair struct {
	reg        *c14reg
	a, b       gen.Node
	nameA      gen.Atom
	nameB      gen.Atom
	rec        *c14rec
	rootA      gen.PID
	port       uint16
	generation int
}

var c14seq int

func c14startNode(reg *c14reg, name gen.Atom, port uint16) (gen.Node, error) {
	var o gen.NodeOptions
	o.Network.Cookie = "c14-cookie"
	o.Log.DefaultLogger.Disable = true
	o.Log.Level = gen.LogLevelDisabled
	if os.Getenv("C14_TRACE") != "" { // debugging aid: node logs on stdout
		o.Log.DefaultLogger.Disable = false
		o.Log.Level = gen.LogLevelTrace
	}
	o.Network.Registrar = &c14registrar{reg: reg}
	o.Network.Acceptors = []gen.AcceptorOptions{{Host: "localhost", Port: port, PortRange: port + 400}}
	return ergo.StartNode(name, o)
}

// waitSecondBoundary returns just after the wall clock moved to a new second (node creation = Unix seconds).
func c14waitSecondBoundary() {
	now := time.Now()
	next := now.Truncate(time.Second).Add(time.Second + 5*time.Millisecond)
	time.Sleep(next.Sub(now))
}

// newC14pair starts two nodes; with distinct=true their creation stamps differ (B is started in a later second).
func newC14pair(distinct bool) (*c14pair, error) {
	c14seq++
	p := &c14pair{reg: &c14reg{routes: map[gen.Atom][]gen.Route{}}, rec: &c14rec{}}
	p.port = uint16(20000 + (os.Getpid()*7+c14seq*13)%20000)
	p.nameA = gen.Atom(fmt.Sprintf("c14a%d-%d@localhost", os.Getpid(), c14seq))
	p.nameB = gen.Atom(fmt.Sprintf("c14b%d-%d@localhost", os.Getpid(), c14seq))
	var err error
	if !distinct {
		// both within one second: start right after a boundary
		if time.Now().Nanosecond() > 600_000_000 {
			c14waitSecondBoundary()
		}
	}
	if p.a, err = c14startNode(p.reg, p.nameA, p.port); err != nil {
		return nil, err
	}
	if distinct {
		c14waitSecondBoundary()
	}
	if p.b, err = c14startNode(p.reg, p.nameB, p.port+1); err != nil {
		p.a.StopForce()
		return nil, err
	}
	return p, nil
}

func (p *c14pair) stop() {
	if p.a != nil {
		p.a.StopForce()
	}
	if p.b != nil {
		p.b.StopForce()
	}
}

// restartB stops B and starts a node with the same name in a later second.
func (p *c14pair) restartB() error {
	p.b.StopForce()
	c14waitSecondBoundary()
	var err error
	for i := 0; i < 20; i++ {
		p.b, err = c14startNode(p.reg, p.nameB, p.port+1)
		if err == nil {
			return nil
		}
		time.Sleep(50 * time.Millisecond)
	}
	return err
}

// do runs f inside the actor pid of node n and waits for it (time-out -> false).
func c14do(n gen.Node, pid gen.PID, d time.Duration, f func(a *c14actor)) bool {
	c := c14cmd{f: f, done: make(chan struct{})}
	if err := n.Send(pid, c); err != nil {
		return false
	}
	select {
	case <-c.done:
		return true
	case <-time.After(d):
		return false
	}
}

func (p *c14pair) spawn(n gen.Node) (gen.PID, error) {
	return n.Spawn(c14factory, gen.ProcessOptions{}, p.rec)
}

// spawnHolder spawns an observer on A as a child of an ordinary process (an exit signal whose sender is the parent
// cannot be trapped, and node-down exits are sent in the name of the node's core pid — the parent of node.Spawn'ed processes)
func (p *c14pair) spawnHolder() (gen.PID, error) {
	if p.rootA == (gen.PID{}) {
		r, err := p.spawn(p.a)
		if err != nil {
			return gen.PID{}, err
		}
		p.rootA = r
	}
	var h gen.PID
	var err error
	if !c14do(p.a, p.rootA, 3*time.Second, func(a *c14actor) { h, err = a.Spawn(c14factory, gen.ProcessOptions{}, p.rec) }) {
		return h, fmt.Errorf("root actor did not answer")
	}
	return h, err
}

// settle lets a freshly made connection finish building its pool on both sides.  (An in-process node that is stopped
// while its acceptor is still handing over a just-accepted socket keeps that socket open — a real process exit would
// close it — so the harness does not stop a node in the first milliseconds of a connection.)
func (p *c14pair) settle() {
	for i := 0; i < 1000; i++ {
		if _, err := p.b.Network().Node(p.nameA); err == nil {
			break
		}
		if _, err := p.a.Network().Node(p.nameB); err != nil {
			break // no connection at all
		}
		time.Sleep(time.Millisecond)
	}
	time.Sleep(60 * time.Millisecond)
}

// waitNoConn waits until neither node has a connection to the other (true) or the time is over (false)
func (p *c14pair) waitNoConn(d time.Duration) bool {
	deadline := time.Now().Add(d)
	for time.Now().Before(deadline) {
		_, ea := p.a.Network().Node(p.nameB)
		eb := error(gen.ErrNoConnection)
		if p.b.IsAlive() {
			_, eb = p.b.Network().Node(p.nameA)
		}
		if ea != nil && eb != nil {
			return true
		}
		time.Sleep(2 * time.Millisecond)
	}
	return false
}

// ---- scenarios ----------------------------------------------------------------------------------------

type c14Scen struct {
	Kind     string `json:"target_kind"` // pid | name | alias | event | node
	Rel      string `json:"relation"`    // link | monitor
	Fault    string `json:"fault"`       // terminate | cut | stop
	Distinct bool   `json:"creations_differ"`
	Cached   bool   `json:"cached_name,omitempty"` // the name of the target is in the atom cache both nodes exchanged (edf.RegisterAtom before connecting)
}

// names registered as atoms before any node of this harness connects: a frame about one of them carries the cache id
var c14cachedOnce sync.Once
var c14cachedNext int

const c14cachedN = 16

func c14cachedName() gen.Atom {
	c14cachedNext++
	return gen.Atom(fmt.Sprintf("c14cached%d", c14cachedNext%c14cachedN))
}

// notification classification: returns (kind "exit"/"down", reason) when m is the notification about target t
func c14classify(m any, t any) (string, error, bool) {
	switch x := m.(type) {
	case gen.MessageExitPID:
		return "exit", x.Reason, reflect.DeepEqual(t, x.PID)
	case gen.MessageDownPID:
		return "down", x.Reason, reflect.DeepEqual(t, x.PID)
	case gen.MessageExitProcessID:
		return "exit", x.Reason, reflect.DeepEqual(t, x.ProcessID)
	case gen.MessageDownProcessID:
		return "down", x.Reason, reflect.DeepEqual(t, x.ProcessID)
	case gen.MessageExitAlias:
		return "exit", x.Reason, reflect.DeepEqual(t, x.Alias)
	case gen.MessageDownAlias:
		return "down", x.Reason, reflect.DeepEqual(t, x.Alias)
	case gen.MessageExitEvent:
		return "exit", x.Reason, reflect.DeepEqual(t, x.Event)
	case gen.MessageDownEvent:
		return "down", x.Reason, reflect.DeepEqual(t, x.Event)
	case gen.MessageExitNode:
		return "exit", gen.ErrNoConnection, reflect.DeepEqual(t, x.Name)
	case gen.MessageDownNode:
		return "down", gen.ErrNoConnection, reflect.DeepEqual(t, x.Name)
	}
	return "", nil, false
}

type c14result struct {
	setupErr     string
	inconclusive string
	violation    string
	sig          string
}

// c14runScenario: holder H on A relates to a fresh target on B, the fault happens, the notifications H got are judged.
func c14runScenario(p *c14pair, sc c14Scen) c14result {
	var res c14result
	const step = 3 * time.Second
	h, err := p.spawnHolder()
	if err != nil {
		res.setupErr = "spawn holder: " + err.Error()
		return res
	}
	tp, err := p.spawn(p.b)
	if err != nil {
		res.setupErr = "spawn target: " + err.Error()
		return res
	}
	// the identifier H relates to
	var target any
	var setupErr error
	switch sc.Kind {
	case "pid":
		target = tp
	case "name":
		nm := gen.Atom(fmt.Sprintf("c14name%d", c14seq))
		c14seq++
		if sc.Cached {
			nm = c14cachedName()
		}
		if !c14do(p.b, tp, step, func(a *c14actor) { setupErr = a.RegisterName(nm) }) {
			res.inconclusive = "target did not run the command"
			return res
		}
		target = gen.ProcessID{Name: nm, Node: p.nameB}
	case "alias":
		var al gen.Alias
		if !c14do(p.b, tp, step, func(a *c14actor) { al, setupErr = a.CreateAlias() }) {
			res.inconclusive = "target did not run the command"
			return res
		}
		target = al
	case "event":
		nm := gen.Atom(fmt.Sprintf("c14event%d", c14seq))
		c14seq++
		if sc.Cached {
			nm = c14cachedName()
		}
		if !c14do(p.b, tp, step, func(a *c14actor) { _, setupErr = a.RegisterEvent(nm, gen.EventOptions{}) }) {
			res.inconclusive = "target did not run the command"
			return res
		}
		target = gen.Event{Name: nm, Node: p.nameB}
	case "node":
		target = p.nameB
	}
	if setupErr != nil {
		res.setupErr = "target setup: " + setupErr.Error()
		return res
	}
	// establish the relation
	var relErr error
	ok := c14do(p.a, h, 8*time.Second, func(a *c14actor) {
		link := sc.Rel == "link"
		switch t := target.(type) {
		case gen.PID:
			if link {
				relErr = a.LinkPID(t)
			} else {
				relErr = a.MonitorPID(t)
			}
		case gen.ProcessID:
			if link {
				relErr = a.LinkProcessID(t)
			} else {
				relErr = a.MonitorProcessID(t)
			}
		case gen.Alias:
			if link {
				relErr = a.LinkAlias(t)
			} else {
				relErr = a.MonitorAlias(t)
			}
		case gen.Event:
			if link {
				_, relErr = a.LinkEvent(t)
			} else {
				_, relErr = a.MonitorEvent(t)
			}
		case gen.Atom:
			if link {
				relErr = a.LinkNode(t)
			} else {
				relErr = a.MonitorNode(t)
			}
		}
	})
	if !ok {
		res.inconclusive = "holder did not finish the link/monitor request"
		return res
	}
	if relErr != nil {
		res.setupErr = fmt.Sprintf("%s %s: %v", sc.Rel, sc.Kind, relErr)
		if relErr == gen.ErrProcessIncarnation {
			pc := int64(-1)
			if rn, e := p.a.Network().Node(p.nameB); e == nil {
				pc = rn.Creation()
			}
			res.setupErr += fmt.Sprintf(" (target creation %d, node B creation %d, A's connection peer creation %d)", tp.Creation, p.b.Creation(), pc)
		}
		return res
	}
	// the fault
	wantReason := gen.ErrNoConnection
	switch sc.Fault {
	case "terminate":
		wantReason = gen.TerminateReasonKill
		if err := p.b.Kill(tp); err != nil {
			res.setupErr = "kill: " + err.Error()
			return res
		}
	case "cut":
		rn, err := p.a.Network().Node(p.nameB)
		if err != nil {
			res.setupErr = "no connection to cut: " + err.Error()
			return res
		}
		rn.Disconnect()
	case "cutB":
		// the accepting side drops the connection
		rn, err := p.b.Network().Node(p.nameA)
		for i := 0; err != nil && i < 1000; i++ { // the acceptor registers the connection asynchronously
			time.Sleep(time.Millisecond)
			rn, err = p.b.Network().Node(p.nameA)
		}
		if err != nil {
			res.setupErr = "no connection to cut on the accepting side: " + err.Error()
			return res
		}
		rn.Disconnect()
	case "stop":
		p.settle()
		p.b.StopForce()
	}
	// wait for the notification (bounded), then a settle period to see duplicates
	expKind := "exit"
	if sc.Rel == "monitor" {
		expKind = "down"
	}
	count := func() (n int, kinds []string, reasons []error) {
		for _, m := range p.rec.at(h) {
			k, r, about := c14classify(m, target)
			if about {
				n++
				kinds = append(kinds, k)
				reasons = append(reasons, r)
			}
		}
		return
	}
	deadline := time.Now().Add(step)
	for time.Now().Before(deadline) {
		if n, _, _ := count(); n > 0 {
			break
		}
		time.Sleep(time.Millisecond)
	}
	if n, _, _ := count(); n == 0 {
		// nothing yet: before calling it lost, give a loaded machine a lot more time
		deadline = time.Now().Add(9 * time.Second)
		for time.Now().Before(deadline) {
			if n, _, _ := count(); n > 0 {
				break
			}
			time.Sleep(5 * time.Millisecond)
		}
	}
	time.Sleep(25 * time.Millisecond)
	n, kinds, reasons := count()
	desc := fmt.Sprintf("%s on remote %s, fault=%s, creations differ=%v", sc.Rel, sc.Kind, sc.Fault, sc.Distinct)
	switch {
	case n == 0:
		// confirm with state, not only with the clock: the target is really gone / the connection is really down,
		// and the holder still carries the relation
		gone := true
		if sc.Fault == "terminate" {
			_, e := p.b.ProcessInfo(tp)
			gone = e != nil
		}
		res.sig = "C14/notification-lost"
		if sc.Fault == "terminate" {
			res.sig = "C14/remote-termination-lost"
		}
		res.violation = fmt.Sprintf("%s: the holder received no %s within %v + 9 s (target gone: %v; holder's messages: %v)", desc, expKind, step, gone, p.rec.at(h))
	case n > 1:
		res.sig = "C14/notification-duplicated"
		res.violation = fmt.Sprintf("%s: the holder received %d notifications %v %v", desc, n, kinds, reasons)
	default:
		if kinds[0] != expKind {
			res.sig = "C14/notification-kind"
			res.violation = fmt.Sprintf("%s: got %s, want %s", desc, kinds[0], expKind)
		} else if sc.Fault == "stop" && reasons[0] == gen.TerminateReasonKill && sc.Kind != "node" {
			// StopForce kills the processes before it closes the network: the target really terminated first
		} else if reasons[0] != wantReason {
			res.sig = "C14/notification-reason"
			res.violation = fmt.Sprintf("%s: reason %v, want %v", desc, reasons[0], wantReason)
		}
	}
	if sc.Fault == "cut" || sc.Fault == "stop" || sc.Fault == "cutB" {
		if !p.waitNoConn(6 * time.Second) {
			res.inconclusive = "the connection objects were not released within 6 s after the " + sc.Fault
		}
	}
	// tidy: the holder is not needed any more
	p.a.Kill(h)
	if sc.Fault != "terminate" && sc.Fault != "stop" {
		p.b.Kill(tp)
	}
	return res
}

// c14calls: several holders have a call in flight to targets of every addressing kind when the connection is cut.
func c14calls(c *Ctx, p *c14pair) {
	r := c.R
	type one struct {
		h    gen.PID
		err  error
		took time.Duration
		done chan struct{}
		kind string
	}
	var calls []*one
	for _, kind := range []string{"pid", "name", "alias"} {
		h, err1 := p.spawnHolder()
		tp, err2 := p.spawn(p.b)
		if err1 != nil || err2 != nil {
			r.Count("inconclusive.calls-setup")
			return
		}
		var to any = tp
		switch kind {
		case "name":
			nm := gen.Atom(fmt.Sprintf("c14call%d", c14seq))
			c14seq++
			c14do(p.b, tp, time.Second, func(a *c14actor) { a.RegisterName(nm) })
			to = gen.ProcessID{Name: nm, Node: p.nameB}
		case "alias":
			var al gen.Alias
			c14do(p.b, tp, time.Second, func(a *c14actor) { al, _ = a.CreateAlias() })
			to = al
		}
		o := &one{h: h, done: make(chan struct{}), kind: kind}
		calls = append(calls, o)
		go func() {
			c14do(p.a, h, 10*time.Second, func(a *c14actor) {
				t0 := time.Now()
				_, o.err = a.CallWithTimeout(to, "noreply", 1)
				o.took = time.Since(t0)
			})
			close(o.done)
		}()
	}
	time.Sleep(40 * time.Millisecond) // the requests are on their way / being handled
	if rn, err := p.a.Network().Node(p.nameB); err == nil {
		rn.Disconnect()
	}
	for _, o := range calls {
		select {
		case <-o.done:
			r.Case("call-in-flight/"+o.kind, true)
			r.Count("nodes.call-in-flight")
			if o.err == nil {
				r.Violation("C14/call-answered-by-nobody", fmt.Sprintf("call to remote %s returned without error although the target never answers and the connection was cut", o.kind), o.kind)
			} else if o.took > 5*time.Second {
				r.Violation("C14/call-late", fmt.Sprintf("call to remote %s with timeout 1 s returned after %v (%v)", o.kind, o.took, o.err), o.kind)
			}
		case <-time.After(9 * time.Second):
			r.Violation("C14/call-hangs", fmt.Sprintf("call to remote %s with timeout 1 s did not return within 9 s after the connection was cut", o.kind), o.kind)
		}
		p.a.Kill(o.h)
	}
	p.waitNoConn(6 * time.Second)
}

// c14stale: identifiers of B's first incarnation are refused after B restarted under the same name.
func c14stale(c *Ctx, p *c14pair) {
	r := c.R
	h, err := p.spawnHolder()
	if err != nil {
		r.Count("inconclusive.stale-setup")
		return
	}
	old, err := p.spawn(p.b)
	if err != nil {
		r.Count("inconclusive.stale-setup")
		return
	}
	var oldAlias gen.Alias
	c14do(p.b, old, time.Second, func(a *c14actor) { oldAlias, _ = a.CreateAlias() })
	// make sure the connection exists and the pid works
	var e0 error
	c14do(p.a, h, 3*time.Second, func(a *c14actor) { e0 = a.Send(old, "hello-old") })
	if e0 != nil {
		r.Count("inconclusive.stale-setup")
		return
	}
	p.settle()
	if err := p.restartB(); err != nil {
		r.Count("inconclusive.restart")
		return
	}
	// A must have noticed that the old incarnation is gone (its pooled links re-dial first)
	if !p.waitNoConn(8 * time.Second) {
		r.Count("inconclusive.old-connection-lingers")
		return
	}
	// processes of the new incarnation, one of them with the same numeric id as `old`
	var same gen.PID
	for i := 0; i < 64; i++ {
		np, err := p.spawn(p.b)
		if err != nil {
			break
		}
		if np.ID == old.ID {
			same = np
			break
		}
		if np.ID > old.ID {
			break
		}
	}
	type try struct {
		name string
		f    func(a *c14actor) error
	}
	tries := []try{
		{"Send(pid)", func(a *c14actor) error { return a.Send(old, "stale") }},
		{"Call(pid)", func(a *c14actor) error { _, e := a.CallWithTimeout(old, "x", 1); return e }},
		{"LinkPID", func(a *c14actor) error { return a.LinkPID(old) }},
		{"MonitorPID", func(a *c14actor) error { return a.MonitorPID(old) }},
		{"SendExit(pid)", func(a *c14actor) error { return a.SendExit(old, gen.TerminateReasonShutdown) }},
		{"Send(alias)", func(a *c14actor) error { return a.Send(oldAlias, "stale") }},
		{"Call(alias)", func(a *c14actor) error { _, e := a.CallWithTimeout(oldAlias, "x", 1); return e }},
		{"LinkAlias", func(a *c14actor) error { return a.LinkAlias(oldAlias) }},
		{"MonitorAlias", func(a *c14actor) error { return a.MonitorAlias(oldAlias) }},
	}
	for _, t := range tries {
		var e error
		if !c14do(p.a, h, 8*time.Second, func(a *c14actor) { e = t.f(a) }) {
			r.Count("inconclusive.stale-op")
			continue
		}
		r.Case("stale/"+t.name, true)
		r.Count("nodes.stale-incarnation-op")
		if e != gen.ErrProcessIncarnation && e != nil && e != gen.ErrTimeout {
			// the connection to the new incarnation could not be made (loaded machine): the identifier was not accepted either
			r.Count("inconclusive.stale-op-no-connection")
			continue
		}
		if e != gen.ErrProcessIncarnation {
			r.Violation("C14/stale-incarnation-accepted", fmt.Sprintf("%s with an identifier of the previous incarnation of %s returned %v, want ErrProcessIncarnation (same-id process in the new incarnation: %v)", t.name, p.nameB, e, same), t.name)
		}
	}
	time.Sleep(30 * time.Millisecond)
	if same.ID != 0 {
		if got := p.rec.at(same); len(got) > 0 {
			r.Violation("C14/stale-incarnation-delivered", fmt.Sprintf("process %v of the new incarnation received %v addressed to the old incarnation", same, got), nil)
		}
		r.Count("nodes.stale.same-id-process-present")
	}
	p.a.Kill(h)
}

// c14midExchange: the connection is cut WHILE link / monitor requests are on their way (request written, answer not yet
// read).  For every holder afterwards: either the request failed and the holder carries no relation, or it succeeded and
// the holder got exactly one exit/down with ErrNoConnection; never a relation that is silently kept.
func c14midExchange(c *Ctx, p *c14pair, fromB bool) {
	r := c.R
	type one struct {
		h      gen.PID
		target gen.PID
		link   bool
		err    error
		done   chan struct{}
	}
	// make sure a connection exists so that the requests really are in flight on an established pool
	warm, err := p.spawnHolder()
	if err != nil {
		r.Count("inconclusive.mid-setup")
		return
	}
	wt, _ := p.spawn(p.b)
	c14do(p.a, warm, 8*time.Second, func(a *c14actor) { a.Send(wt, "warm-up") })
	p.settle()
	var ones []*one
	for i := 0; i < 8; i++ {
		h, err1 := p.spawnHolder()
		tp, err2 := p.spawn(p.b)
		if err1 != nil || err2 != nil {
			r.Count("inconclusive.mid-setup")
			return
		}
		ones = append(ones, &one{h: h, target: tp, link: i%2 == 0, done: make(chan struct{})})
	}
	for _, o := range ones {
		o := o
		go func() {
			c14do(p.a, o.h, 12*time.Second, func(a *c14actor) {
				if o.link {
					o.err = a.LinkPID(o.target)
				} else {
					o.err = a.MonitorPID(o.target)
				}
			})
			close(o.done)
		}()
	}
	// cut somewhere inside the exchanges
	time.Sleep(time.Duration(c.Rng.Intn(1500)) * time.Microsecond)
	if fromB {
		if rn, err := p.b.Network().Node(p.nameA); err == nil {
			rn.Disconnect()
		}
	} else {
		if rn, err := p.a.Network().Node(p.nameB); err == nil {
			rn.Disconnect()
		}
	}
	for _, o := range ones {
		select {
		case <-o.done:
		case <-time.After(13 * time.Second):
			r.Violation("C14/request-hangs", "a link/monitor request in flight when the connection was cut did not return within 13 s (request time-out is 5 s)", nil)
			return
		}
	}
	// a request issued after the cut re-dials: the pair may be connected again (over a new connection, which nobody has
	// cut). The oracle below speaks about relations WITHOUT a connection: cut until the pair stays apart.
	apart := p.waitNoConn(3 * time.Second)
	for i := 0; i < 5 && !apart; i++ {
		if rn, err := p.a.Network().Node(p.nameB); err == nil {
			rn.Disconnect()
		}
		apart = p.waitNoConn(3 * time.Second)
	}
	if !apart {
		r.Count("inconclusive.mid-exchange-still-connected")
		for _, o := range ones {
			p.a.Kill(o.h)
		}
		p.a.Kill(warm)
		return
	}
	time.Sleep(30 * time.Millisecond)
	for _, o := range ones {
		notified := func() int {
			n := 0
			for _, m := range p.rec.at(o.h) {
				if _, _, about := c14classify(m, o.target); about {
					n++
				}
			}
			return n
		}
		// what the holder's own node still records for it
		isHeld := func() bool {
			held := false
			if info, err := p.a.ProcessInfo(o.h); err == nil {
				for _, x := range info.LinksPID {
					held = held || x == o.target
				}
				for _, x := range info.MonitorsPID {
					held = held || x == o.target
				}
			}
			return held
		}
		// the connection leaves the table first, RouteNodeDown (cleanup and notifications) runs after that in the same
		// goroutine: on a loaded machine "no connection" can be observed well before the cleanup. A relation that is
		// still recorded without a notification gets time; one that was really left behind stays for ever.
		if o.err == nil {
			waitUntil(4*time.Second, func() bool { return notified() > 0 || !isHeld() })
			time.Sleep(5 * time.Millisecond)
		}
		n := 0
		for _, m := range p.rec.at(o.h) {
			if _, reason, about := c14classify(m, o.target); about {
				n++
				if reason != gen.ErrNoConnection {
					r.Violation("C14/notification-reason", fmt.Sprintf("mid-exchange cut: reason %v, want no connection", reason), nil)
				}
			}
		}
		held := isHeld()
		kind := "monitor"
		if o.link {
			kind = "link"
		}
		r.Case(fmt.Sprintf("mid/%s/%v/%d", kind, o.err == nil, n), true)
		if o.err == nil {
			r.Count("nodes.mid-exchange.request-succeeded")
		} else {
			r.Count("nodes.mid-exchange.request-failed")
		}
		switch {
		case n > 1:
			r.Violation("C14/notification-duplicated", fmt.Sprintf("mid-exchange cut (%s): %d notifications", kind, n), nil)
		case o.err == nil && n == 0 && held:
			// the answer arrived, the node-down ran, THEN the relation was recorded: the listed race
			r.Violation(c14SigRace, fmt.Sprintf("mid-exchange cut: the %s request returned nil, the connection is gone, the holder got no exit/down and its node still records the relation", kind), nil)
		case o.err == nil && n == 0:
			r.Violation("C14/notification-lost", fmt.Sprintf("mid-exchange cut: the %s request returned nil, the connection is gone, and the holder got no exit/down (relation still recorded: %v)", kind, held), nil)
		case held:
			r.Violation("C14/relation-kept-after-node-down", fmt.Sprintf("mid-exchange cut: the %s request returned %v, the connection is gone, and the holder's node still records the relation", kind, o.err), nil)
		}
		p.a.Kill(o.h)
	}
	p.a.Kill(warm)
}

const c14SigRace = "C14/link-vs-node-down-race"

// c14raceWitness replays the listed finding deterministically: the holder's RouteLinkPID / RouteMonitorPID is parked at
// the yield point between the remote request (answered OK) and the local AddLink/AddMonitor, the connection is cut and
// the node-down is processed, then the holder continues.
func c14raceWitness(c *Ctx, p *c14pair, link bool) {
	r := c.R
	label := "RouteMonitorPID:remote:before-add"
	if link {
		label = "RouteLinkPID:remote:before-add"
	}
	h, err1 := p.spawnHolder()
	tp, err2 := p.spawn(p.b)
	if err1 != nil || err2 != nil {
		r.Count("inconclusive.race-setup")
		return
	}
	c14do(p.a, h, 8*time.Second, func(a *c14actor) { a.Send(tp, "warm-up") })
	p.settle()
	parked, release := make(chan struct{}), make(chan struct{})
	var once sync.Once
	lib.VerifHandler = func(obj any, l string) {
		if l == label {
			hit := false
			once.Do(func() { hit = true })
			if hit {
				close(parked)
				<-release
			}
		}
	}
	defer func() { lib.VerifHandler = nil }()
	var relErr error
	done := make(chan struct{})
	go func() {
		c14do(p.a, h, 20*time.Second, func(a *c14actor) {
			if link {
				relErr = a.LinkPID(tp)
			} else {
				relErr = a.MonitorPID(tp)
			}
		})
		close(done)
	}()
	select {
	case <-parked:
	case <-time.After(8 * time.Second):
		close(release)
		r.Count("inconclusive.race-not-parked")
		return
	}
	if rn, err := p.a.Network().Node(p.nameB); err == nil {
		rn.Disconnect()
	}
	ok := p.waitNoConn(6 * time.Second) // RouteNodeDown has run on A
	close(release)
	<-done
	if !ok {
		r.Count("inconclusive.race-timeout")
		return
	}
	time.Sleep(30 * time.Millisecond)
	count := func() (int, bool) {
		n := 0
		for _, m := range p.rec.at(h) {
			if _, _, about := c14classify(m, tp); about {
				n++
			}
		}
		held := false
		if info, err := p.a.ProcessInfo(h); err == nil {
			for _, x := range append(info.LinksPID, info.MonitorsPID...) {
				held = held || x == tp
			}
		}
		return n, held
	}
	if relErr == nil {
		// a granted request is either notified or no longer recorded once the node-down has run (which may lag)
		waitUntil(4*time.Second, func() bool { n, held := count(); return n > 0 || !held })
		time.Sleep(5 * time.Millisecond)
	}
	n, held := count()
	r.Count("witness.link-vs-node-down-race")
	r.Case(fmt.Sprintf("race-witness/%v", link), true)
	if relErr == nil && n == 0 && held {
		r.Count("witness.link-vs-node-down-race.reproduced")
		r.Violation(c14SigRace, fmt.Sprintf("node-down processed between the remote answer and the local Add (link=%v): the request returned nil, no exit/down was delivered, the relation stays recorded without a connection", link), map[string]interface{}{"link": link})
	} else if relErr == nil && n != 1 {
		r.Violation("C14/notification-lost", fmt.Sprintf("race witness: request returned nil, %d notifications, relation recorded: %v", n, held), nil)
	} else if relErr != nil && (held || n != 0) {
		r.Violation("C14/refused-but-recorded", fmt.Sprintf("race witness: request returned %v, yet %d notification(s) arrived and relation recorded: %v", relErr, n, held), nil)
	}
	if relErr != nil {
		r.Count("witness.link-vs-node-down-race.refused")
	}
	p.a.Kill(h)
}

func c14Nodes(c *Ctx) {
	r := c.R
	c14cachedOnce.Do(func() {
		for i := 0; i < c14cachedN; i++ {
			edf.RegisterAtom(gen.Atom(fmt.Sprintf("c14cached%d", i)))
		}
	})
	kinds := []string{"pid", "name", "alias", "event", "node"}
	rels := []string{"link", "monitor"}
	run := func(p *c14pair, sc c14Scen) bool {
		res := c14runScenario(p, sc)
		r.Case(fmt.Sprintf("nodes/%v", sc), true)
		r.Count("nodes.scenario." + sc.Fault)
		switch {
		case res.setupErr != "":
			r.Count("inconclusive.setup")
			r.Note("C14 nodes %v: setup failed: %s", sc, res.setupErr)
		case res.inconclusive != "":
			r.Count("inconclusive.timeout")
		case res.violation != "":
			r.Violation(res.sig, res.violation, sc)
		}
		return res.setupErr == ""
	}
	rounds := c.N(1, 6)
	for round := 0; round < rounds; round++ {
		for _, distinct := range []bool{true, false} {
			p, err := newC14pair(distinct)
			if err != nil {
				r.Count("inconclusive.node-start")
				r.Note("C14 nodes: start failed: %v", err)
				continue
			}
			ca, cb := p.a.Creation(), p.b.Creation()
			if (ca != cb) != distinct {
				r.Count("inconclusive.creation-stamps")
			}
			if ca != cb {
				r.Count("nodes.pair.creations-differ")
			} else {
				r.Count("nodes.pair.creations-equal")
			}
			// order of scenarios is seeded
			var scs []c14Scen
			for _, k := range kinds {
				for _, rel := range rels {
					if k != "node" {
						scs = append(scs, c14Scen{k, rel, "terminate", ca != cb, false})
					}
					scs = append(scs, c14Scen{k, rel, "cut", ca != cb, false})
					scs = append(scs, c14Scen{k, rel, "cutB", ca != cb, false})
					if k == "name" || k == "event" {
						scs = append(scs, c14Scen{k, rel, "terminate", ca != cb, true})
					}
				}
			}
			for i := len(scs) - 1; i > 0; i-- {
				j := c.Rng.Intn(i + 1)
				scs[i], scs[j] = scs[j], scs[i]
			}
			for _, sc := range scs {
				run(p, sc)
			}
			c14calls(c, p)
			c14midExchange(c, p, false)
			c14midExchange(c, p, true)
			c14raceWitness(c, p, distinct)
			if distinct {
				c14stale(c, p)
			}
			// the last scenario of a pair stops B
			k, rel := kinds[c.Rng.Intn(len(kinds))], rels[c.Rng.Intn(2)]
			run(p, c14Scen{k, rel, "stop", ca != cb, false})
			p.stop()
		}
	}
}

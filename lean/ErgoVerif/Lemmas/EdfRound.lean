import ErgoVerif.Lemmas.EdfGood
namespace ErgoVerif.Edf
open ErgoVerif.Generated.Edt

theorem Vals.length_zero : (vs : Vals) → vs.length = 0 → vs = .nil
  | .nil, _ => rfl
  | .cons _ _, h => by simp [Vals.length] at h
theorem Pairs.length_zero : (ps : Pairs) → ps.length = 0 → ps = .nil
  | .nil, _ => rfl
  | .cons _ _ _, h => by simp [Pairs.length] at h

theorem encs_nil_len (o : Opts) (t : Ty) (vs : Vals) (bs : Bytes) (he : encs o t vs = some bs) (h : vs.length = 0) : bs = [] := by
  have := Vals.length_zero vs h; subst this; simpa [encs] using he.symm

theorem Pairs.app_nil : (a : Pairs) → a.app .nil = a
  | .nil => rfl
  | .cons k v ps => by simp [Pairs.app, Pairs.app_nil ps]

theorem encp_nz (o : Opts) : (ps : Pairs) → (kt vt : Ty) → (bs : Bytes) → encp o kt vt ps = some bs →
    (kt.nz = true ∨ vt.nz = true) → ps.length ≤ bs.length
  | .nil, _, _, _, _, _ => by simp [Pairs.length]
  | .cons k v ps, kt, vt, bs, he, hz => by
    simp only [encp] at he
    split at he <;> simp at he
    rename_i a b c ha hb hc
    subst he
    have h3 := encp_nz o ps kt vt c hc hz
    rcases hz with hz | hz
    · have := encB_nz o k kt a ha hz; simp [Pairs.length]; omega
    · have := encB_nz o v vt b hb hz; simp [Pairs.length]; omega

/-- slice body: header byte, count, elements — shared by unnamed and registered slices -/
theorem slice_body (o : Opts) (t : Ty) (vs : Vals) (body r : Bytes) (f : Nat)
    (he : encs o t vs = some body) (hl : vs.length < lim32) (hz : t.nz = true ∨ vs.length = 0)
    (_ih : iterV (dec o f false t) vs.length (body ++ r) = .ok (vs, r)) :
    rd32 (be32 vs.length ++ body ++ r) = some (vs.length, body ++ r) ∧ ¬ (body ++ r).length < vs.length := by
  constructor
  · rw [List.append_assoc]; exact rd32_be32 _ hl _
  · rcases hz with hz | hz
    · have := encs_nz o vs t body he hz; simp; omega
    · omega

mutual
theorem dec_encB (o : Opts) (hc : CachesConsistent o) : (v : Val) → (t : Ty) → (bs r : Bytes) → (fuel : Nat) →
    encB o t v = some bs → Good o t v → v.depth ≤ fuel → dec o fuel false t (bs ++ r) = .ok (v, r)
  | .nil, t, bs, r, fuel, he, hg, hf => by
    cases fuel with
    | zero => simp [Val.depth] at hf
    | succ f =>
      cases t
      case named nm t' => cases t' <;> simp [encB, encLeaf, Ty.namedLeaf] at he <;> subst he <;> simp [dec] <;> decide
      case error => simp [encB] at he; subst he; simp [dec, Ty.leafTag, checkTag, decLeaf, rd16, errNilId]
      case any =>
        have e1 : edtNil ≠ edtReg := by decide
        have e2 : edtNil ≠ edtType := by decide
        simp [encB] at he; subst he; simp [dec, getDecoder, e1, e2]
      case slice => simp [encB] at he; subst he; simp [dec]
      case map => simp [encB] at he; subst he; simp [dec]
      all_goals (simp [encB, encLeaf] at he)
  | .any t' v', t, bs, r, fuel, he, hg, hf => by
    cases fuel with
    | zero => simp [Val.depth] at hf
    | succ f =>
      cases t
      case named nm t'' => cases t'' <;> simp [encB, encLeaf, Ty.namedLeaf] at he
      case any =>
        simp [encB] at he
        obtain ⟨⟨⟨_, hne⟩, hnn⟩, body, hb, rfl⟩ := he
        simp only [Good] at hg
        obtain ⟨hd, hl, hg⟩ := hg
        simp only [Val.depth] at hf
        have ih := dec_encB o hc v' t' body r f hb hg (by omega)
        have hgd := getDecoder_hdr o hc t' hd hl hne false (body ++ r)
        simp only [Bool.if_false_right, Bool.and_false] at hgd
        have hnn' : ¬ (t' = .error ∧ v' = .nil) := by intro ⟨h1, h2⟩; rcases hnn with h | h <;> contradiction
        simp only [dec, List.append_assoc, hgd, ih, hne, hnn', ↓reduceIte]
      all_goals (simp [encB, encLeaf] at he)
  | .list vs, t, bs, r, fuel, he, hg, hf => by
    cases fuel with
    | zero => simp [Val.depth] at hf
    | succ f =>
      simp only [Val.depth] at hf
      cases t
      case named nm t' =>
        cases t' <;> simp [encB, encLeaf, Ty.namedLeaf] at he
        case slice t'' =>
          obtain ⟨body, hb, rfl⟩ := he
          simp only [Good] at hg
          obtain ⟨hl, hz, hg⟩ := hg
          have ih := decs_encs o hc vs t'' body r f hb hg (by omega)
          obtain ⟨h1, h2⟩ := slice_body o t'' vs body r f hb hl hz ih
          have e1 : edtReg ≠ edtNil := by decide
          simp only [dec, List.cons_append, e1, ↓reduceIte, ne_eq, not_true_eq_false, h1, lenLt_eq, decide_eq_true_eq, h2, ih]
        case array n t'' =>
          obtain ⟨hn, hb⟩ := he
          simp only [Good] at hg
          obtain ⟨hz, hg⟩ := hg
          have ih := decs_encs o hc vs t'' bs r f hb hg (by omega)
          simp only [dec]
          split
          · rename_i hnil
            have hbs : bs = [] := by cases bs <;> simp_all
            have hr : r = [] := by cases bs <;> simp_all
            have : n = 0 := by
              rcases hz with hz | hz
              · have := encs_nz o vs t'' bs hb hz; subst hbs; simp at this; omega
              · exact hz
            subst this
            have := Vals.length_zero vs hn; subst this
            simp [hr]
          · rw [← hn, ih]
      case slice t' =>
        simp [encB] at he
        obtain ⟨body, hb, rfl⟩ := he
        simp only [Good] at hg
        obtain ⟨hl, hz, hg⟩ := hg
        have ih := decs_encs o hc vs t' body r f hb hg (by omega)
        obtain ⟨h1, h2⟩ := slice_body o t' vs body r f hb hl hz ih
        have e1 : edtSlice ≠ edtNil := by decide
        simp only [dec, List.cons_append, e1, ↓reduceIte, ne_eq, not_true_eq_false, h1]
        by_cases h0 : vs.length = 0
        · have := Vals.length_zero vs h0; subst this
          simp [encs] at hb; subst hb; simp [Vals.length]
        · simp only [h0, ↓reduceIte, lenLt_eq, decide_eq_true_eq, h2, ih]
      case array n t' =>
        simp [encB] at he
        obtain ⟨hn, hb⟩ := he
        simp only [Good] at hg
        obtain ⟨hz, hg⟩ := hg
        have ih := decs_encs o hc vs t' bs r f hb hg (by omega)
        simp only [dec]
        split
        · rename_i hnil
          have hbs : bs = [] := by cases bs <;> simp_all
          have hr : r = [] := by cases bs <;> simp_all
          have : n = 0 := by
            rcases hz with hz | hz
            · have := encs_nz o vs t' bs hb hz; subst hbs; simp at this; omega
            · exact hz
          subst this
          have := Vals.length_zero vs hn; subst this
          simp [hr]
        · rw [← hn, ih]
      case struct nm fs =>
        simp [encB] at he
        simp only [Good] at hg
        have ih := decf_encf o hc vs fs bs r f he hg (by omega)
        simp only [dec, ih]
      all_goals (simp [encB, encLeaf] at he)
  | .map ps, t, bs, r, fuel, he, hg, hf => by
    cases fuel with
    | zero => simp [Val.depth] at hf
    | succ f =>
      simp only [Val.depth] at hf
      cases t
      case named nm t' =>
        cases t' <;> simp [encB, encLeaf, Ty.namedLeaf] at he
        case map kt vt =>
          obtain ⟨body, hb, rfl⟩ := he
          simp only [Good] at hg
          obtain ⟨hl, hz, hk, hg⟩ := hg
          have ih := decp_encp o hc ps kt vt body r f .nil hb hg (by omega) hk
          have e1 : edtReg ≠ edtNil := by decide
          have h1 : rd32 (be32 ps.length ++ body ++ r) = some (ps.length, body ++ r) := by
            rw [List.append_assoc]; exact rd32_be32 _ hl _
          simp only [dec, List.cons_append, e1, ↓reduceIte, ne_eq, not_true_eq_false, h1]
          by_cases h0 : ps.length = 0
          · have := Pairs.length_zero ps h0; subst this
            simp [encp] at hb; subst hb; simp [Pairs.length]
          · have h2 : ¬ (body ++ r).length < ps.length := by
              have := encp_nz o ps kt vt body hb (by rcases hz with h | h | h <;> simp_all)
              simp; omega
            simp only [h0, ↓reduceIte, lenLt_eq, decide_eq_true_eq, h2, ih, Pairs.app]
      case map kt vt =>
        simp [encB] at he
        obtain ⟨body, hb, rfl⟩ := he
        simp only [Good] at hg
        obtain ⟨hl, hz, hk, hg⟩ := hg
        have ih := decp_encp o hc ps kt vt body r f .nil hb hg (by omega) hk
        have e1 : edtMap ≠ edtNil := by decide
        have h1 : rd32 (be32 ps.length ++ body ++ r) = some (ps.length, body ++ r) := by
          rw [List.append_assoc]; exact rd32_be32 _ hl _
        simp only [dec, List.cons_append, e1, ↓reduceIte, ne_eq, not_true_eq_false, h1]
        by_cases h0 : ps.length = 0
        · have := Pairs.length_zero ps h0; subst this
          simp [encp] at hb; subst hb; simp [Pairs.length]
        · have h2 : ¬ (body ++ r).length < ps.length := by
            have := encp_nz o ps kt vt body hb (by rcases hz with h | h | h <;> simp_all)
            simp; omega
          simp only [h0, ↓reduceIte, lenLt_eq, decide_eq_true_eq, h2, ih, Pairs.app]
      all_goals (simp [encB, encLeaf] at he)
  | .opaque p, t, bs, r, fuel, he, hg, hf => by
    cases fuel with
    | zero => simp [Val.depth] at hf
    | succ f =>
      cases t
      case named nm t' => cases t' <;> simp [encB, encLeaf, Ty.namedLeaf] at he
      case marsh =>
        simp [encB] at he
        obtain ⟨hl, rfl⟩ := he
        simp only [limBinaryEnc] at hl
        simp [dec, List.append_assoc, rd32_be32 _ (show p.length < 4294967296 by omega)]
      all_goals (simp [encB, encLeaf] at he)
  | .bool b, t, bs, r, fuel, he, hg, hf => by
    cases fuel with
    | zero => simp [Val.depth] at hf
    | succ f => exact dec_encB_leaf o hc t _ bs r f (by simp) he hg
  | .num b, t, bs, r, fuel, he, hg, hf => by
    cases fuel with
    | zero => simp [Val.depth] at hf
    | succ f => exact dec_encB_leaf o hc t _ bs r f (by simp) he hg
  | .str b, t, bs, r, fuel, he, hg, hf => by
    cases fuel with
    | zero => simp [Val.depth] at hf
    | succ f => exact dec_encB_leaf o hc t _ bs r f (by simp) he hg
  | .bin b, t, bs, r, fuel, he, hg, hf => by
    cases fuel with
    | zero => simp [Val.depth] at hf
    | succ f => exact dec_encB_leaf o hc t _ bs r f (by simp) he hg
  | .atom b, t, bs, r, fuel, he, hg, hf => by
    cases fuel with
    | zero => simp [Val.depth] at hf
    | succ f => exact dec_encB_leaf o hc t _ bs r f (by simp) he hg
  | .idr a b, t, bs, r, fuel, he, hg, hf => by
    cases fuel with
    | zero => simp [Val.depth] at hf
    | succ f => exact dec_encB_leaf o hc t _ bs r f (by simp) he hg
  | .idn a b, t, bs, r, fuel, he, hg, hf => by
    cases fuel with
    | zero => simp [Val.depth] at hf
    | succ f => exact dec_encB_leaf o hc t _ bs r f (by simp) he hg
  | .time b, t, bs, r, fuel, he, hg, hf => by
    cases fuel with
    | zero => simp [Val.depth] at hf
    | succ f => exact dec_encB_leaf o hc t _ bs r f (by simp) he hg
  | .errText b, t, bs, r, fuel, he, hg, hf => by
    cases fuel with
    | zero => simp [Val.depth] at hf
    | succ f => exact dec_encB_leaf o hc t _ bs r f (by simp) he hg
  | .errSent b, t, bs, r, fuel, he, hg, hf => by
    cases fuel with
    | zero => simp [Val.depth] at hf
    | succ f => exact dec_encB_leaf o hc t _ bs r f (by simp) he hg
theorem decs_encs (o : Opts) (hc : CachesConsistent o) : (vs : Vals) → (t : Ty) → (bs r : Bytes) → (fuel : Nat) →
    encs o t vs = some bs → Goods o t vs → vs.depth ≤ fuel →
    iterV (dec o fuel false t) vs.length (bs ++ r) = .ok (vs, r)
  | .nil, t, bs, r, fuel, he, hg, hf => by
    simp [encs] at he; subst he; simp [Vals.length, iterV]
  | .cons v vs, t, bs, r, fuel, he, hg, hf => by
    simp only [encs] at he
    split at he <;> simp at he
    rename_i a b ha hb
    subst he
    simp only [Goods] at hg
    simp only [Vals.depth] at hf
    have h1 := dec_encB o hc v t a (b ++ r) fuel ha hg.1 (by omega)
    have h2 := decs_encs o hc vs t b r fuel hb hg.2 (by omega)
    simp only [Vals.length, iterV, List.append_assoc, h1, h2]
theorem decf_encf (o : Opts) (hc : CachesConsistent o) : (vs : Vals) → (fs : Tys) → (bs r : Bytes) → (fuel : Nat) →
    encf o fs vs = some bs → Goodf o fs vs → vs.depth ≤ fuel →
    iterF (fun t b => dec o fuel false t b) fs (bs ++ r) = .ok (vs, r)
  | .nil, fs, bs, r, fuel, he, hg, hf => by
    cases fs <;> simp [encf] at he
    subst he; simp [iterF]
  | .cons v vs, fs, bs, r, fuel, he, hg, hf => by
    cases fs with
    | nil => simp [encf] at he
    | cons t ts =>
      simp only [encf] at he
      split at he <;> simp at he
      rename_i a b ha hb
      subst he
      simp only [Goodf] at hg
      simp only [Vals.depth] at hf
      have h1 := dec_encB o hc v t a (b ++ r) fuel ha hg.1 (by omega)
      have h2 := decf_encf o hc vs ts b r fuel hb hg.2 (by omega)
      simp only [iterF, List.append_assoc, h1, h2]
theorem decp_encp (o : Opts) (hc : CachesConsistent o) : (ps : Pairs) → (kt vt : Ty) → (bs r : Bytes) → (fuel : Nat) → (acc : Pairs) →
    encp o kt vt ps = some bs → Goodp o kt vt ps → ps.depth ≤ fuel → Pairs.KeysOK acc ps →
    iterP (dec o fuel false kt) (dec o fuel false vt) ps.length acc (bs ++ r) = .ok (acc.app ps, r)
  | .nil, kt, vt, bs, r, fuel, acc, he, hg, hf, hk => by
    simp [encp] at he; subst he
    simp [Pairs.length, iterP, Pairs.app_nil]
  | .cons k v ps, kt, vt, bs, r, fuel, acc, he, hg, hf, hk => by
    simp only [encp] at he
    split at he <;> simp at he
    rename_i a b c ha hb hc'
    subst he
    simp only [Goodp] at hg
    simp only [Pairs.depth] at hf
    obtain ⟨hk1, hk2, hk3⟩ := hk
    have h1 := dec_encB o hc k kt a (b ++ c ++ r) fuel ha hg.1 (by omega)
    have h2 := dec_encB o hc v vt b (c ++ r) fuel hb hg.2.1 (by omega)
    have h3 := decp_encp o hc ps kt vt c r fuel (acc.snoc k v) hc' hg.2.2 (by omega) hk3
    simp only [Pairs.length, iterP, List.append_assoc] at h1 h2 h3 ⊢
    simp only [h1, h2, hk2, ↓reduceIte, Pairs.insert_fresh acc k v hk1, h3, Pairs.snoc_app]
end
end ErgoVerif.Edf

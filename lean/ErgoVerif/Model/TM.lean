/-
Model of `gen/default_target_manager.go` (the default `gen.TargetManager`):
a primary set of relations `relations map[relationKey]struct{}` and a secondary
index `targetIndex map[any]map[relationKey]struct{}` keyed by target.

* Go maps are modelled as duplicate-free lists (`rel`) and as a total function
  `idx : Target → List Key` (a missing map entry and an empty inner map are the same
  thing: the code deletes the inner map exactly when it becomes empty and treats `nil`
  as "no keys").
* `for key := range m { … delete(m, key) … }` visits every entry present at loop start
  exactly once (Go spec: deleting the *current* key during range is safe) — modelled as
  a fold over the entries selected by the loop's `if`.
* All 11 methods of the interface are modelled as they are written, operation by
  operation (the index is maintained by erasing single keys, `CleanupTarget` reads the
  index only, the other cleanups read the primary set only).
* `routeNodeDown` mirrors `node.RouteNodeDown` (node/core.go): the fan-out of
  `CleanupNode`'s two result maps into exit / down messages.

No proofs here (see `Lemmas/TM.lean`).
-/
namespace ErgoVerif.TM

abbrev Node := Nat

/-- gen.PID {Node, ID, Creation} -/
structure Pid where
  node : Node
  id : Nat
  creation : Nat
deriving DecidableEq, Repr

/-- the dynamic type of a `target any` value; `other` stands for every Go value that is none of
    the five types `CleanupNode` / `RouteNodeDown` switch on -/
inductive Target
  | pid (p : Pid)                               -- gen.PID
  | name (node : Node) (name : Nat)             -- gen.ProcessID {Name, Node}
  | alias (node : Node) (id : Nat) (creation : Nat)   -- gen.Alias {Node, Creation, ID}
  | event (node : Node) (name : Nat)            -- gen.Event {Name, Node}
  | node (n : Node)                             -- gen.Atom
  | other (x : Nat)
deriving DecidableEq, Repr

/-- the `switch tt := key.target.(type)` of CleanupNode: does the target live on `n`? -/
def Target.onNode : Target → Node → Bool
  | .pid p, n => p.node = n
  | .name nd _, n => nd = n
  | .alias nd _ _, n => nd = n
  | .event nd _, n => nd = n
  | .node a, n => a = n
  | .other _, _ => false

/-- relationKey {consumer, target, monitor} -/
structure Key where
  consumer : Pid
  target : Target
  monitor : Bool
deriving DecidableEq, Repr

structure St where
  rel : List Key                 -- tm.relations
  idx : Target → List Key        -- tm.targetIndex

def init : St := ⟨[], fun _ => []⟩

inductive Err | exist | unknown deriving DecidableEq, Repr

def idxSet (idx : Target → List Key) (t : Target) (ks : List Key) : Target → List Key :=
  fun t' => if t' = t then ks else idx t'

/-- `delete(targetKeys, key); if len(targetKeys)==0 { delete(tm.targetIndex, target) }` -/
def idxErase (idx : Target → List Key) (k : Key) : Target → List Key :=
  idxSet idx k.target ((idx k.target).erase k)

/-- AddLink / AddMonitor -/
def add (s : St) (k : Key) : St × Option Err :=
  if k ∈ s.rel then (s, some .exist)
  else (⟨k :: s.rel, idxSet s.idx k.target (k :: s.idx k.target)⟩, none)

/-- RemoveLink / RemoveMonitor -/
def remove (s : St) (k : Key) : St × Option Err :=
  if k ∈ s.rel then (⟨s.rel.erase k, idxErase s.idx k⟩, none)
  else (s, some .unknown)

/-- HasLink / HasMonitor -/
def has (s : St) (k : Key) : Bool := decide (k ∈ s.rel)

/-- one iteration of a cleanup loop over the primary set: `delete(tm.relations, key)` + index erase -/
def dropKey (s : St) (k : Key) : St := ⟨s.rel.erase k, idxErase s.idx k⟩

/-- CleanupConsumer: loop over `tm.relations`, keys of this consumer are recorded and dropped -/
def cleanupConsumer (s : St) (c : Pid) : St × List Key :=
  let ks := s.rel.filter (fun k => k.consumer = c)
  (ks.foldl dropKey s, ks)

/-- CleanupTarget: loop over `tm.targetIndex[target]` only; every key found there is deleted from
    `tm.relations`, then the whole index entry is deleted -/
def cleanupTarget (s : St) (t : Target) : St × List Key :=
  let ks := s.idx t
  (⟨ks.foldl List.erase s.rel, idxSet s.idx t []⟩, ks)

/-- the loop body's two tests of CleanupNode -/
def consumerOn (n : Node) (k : Key) : Bool := k.consumer.node = n
def targetOn (n : Node) (k : Key) : Bool := k.target.onNode n

/-- CleanupNode: keys whose consumer is on the node are dropped silently (`continue`),
    otherwise keys whose target is on the node are recorded and dropped -/
def cleanupNode (s : St) (n : Node) : St × List Key :=
  let gone := s.rel.filter (fun k => consumerOn n k || targetOn n k)
  let reported := s.rel.filter (fun k => !consumerOn n k && targetOn n k)
  (gone.foldl dropKey s, reported)

/-- GetTargetsForConsumer -/
def targetsFor (s : St) (c : Pid) : List Key := s.rel.filter (fun k => k.consumer = c)

/-- GetConsumersForTarget (reads the index) -/
def consumersFor (s : St) (t : Target) : List Pid := (s.idx t).map (·.consumer)

/-! ### operations as a state machine (K2 driver, refinement) -/

inductive Op
  | addLink (c : Pid) (t : Target) | removeLink (c : Pid) (t : Target) | hasLink (c : Pid) (t : Target)
  | addMonitor (c : Pid) (t : Target) | removeMonitor (c : Pid) (t : Target) | hasMonitor (c : Pid) (t : Target)
  | cleanupConsumer (c : Pid) | cleanupTarget (t : Target) | cleanupNode (n : Node)
  | targetsFor (c : Pid) | consumersFor (t : Target)

inductive Out
  | err (e : Option Err)
  | bool (b : Bool)
  | keys (ks : List Key)        -- the (consumer,target,monitor) triples an operation reports
  | pids (ps : List Pid)

def step (s : St) : Op → St × Out
  | .addLink c t => let r := add s ⟨c, t, false⟩; (r.1, .err r.2)
  | .removeLink c t => let r := remove s ⟨c, t, false⟩; (r.1, .err r.2)
  | .hasLink c t => (s, .bool (has s ⟨c, t, false⟩))
  | .addMonitor c t => let r := add s ⟨c, t, true⟩; (r.1, .err r.2)
  | .removeMonitor c t => let r := remove s ⟨c, t, true⟩; (r.1, .err r.2)
  | .hasMonitor c t => (s, .bool (has s ⟨c, t, true⟩))
  | .cleanupConsumer c => let r := cleanupConsumer s c; (r.1, .keys r.2)
  | .cleanupTarget t => let r := cleanupTarget s t; (r.1, .keys r.2)
  | .cleanupNode n => let r := cleanupNode s n; (r.1, .keys r.2)
  | .targetsFor c => (s, .keys (targetsFor s c))
  | .consumersFor t => (s, .pids (consumersFor s t))

def run (s : St) : List Op → St
  | [] => s
  | op :: ops => run (step s op).1 ops

/-! ### RouteNodeDown fan-out (node/core.go) -/

/-- what a holder receives: an exit signal (link, urgent queue) or a down message (monitor);
    the reason is always `gen.ErrNoConnection` for the four addressed kinds, MessageExitNode /
    MessageDownNode carry only the node name -/
inductive NKind | exit | down deriving DecidableEq, Repr

structure Notif where
  to : Pid
  kind : NKind
  target : Target
deriving DecidableEq, Repr

/-- the type switch of RouteNodeDown: targets of an unknown dynamic type are skipped (`default: continue`) -/
def Target.known : Target → Bool
  | .other _ => false
  | _ => true

def notifOf (k : Key) : Notif := ⟨k.consumer, if k.monitor then .down else .exit, k.target⟩

/-- RouteNodeDown: CleanupNode, then one sendExitMessage per (link target, consumer) and one
    RouteSendPID(MessageDown*) per (monitor target, consumer) -/
def routeNodeDown (s : St) (n : Node) : St × List Notif :=
  let r := cleanupNode s n
  (r.1, (r.2.filter (·.target.known)).map notifOf)

/-! ### RouteTerminate* (node/core.go): a target terminates -/

/-- what a holder receives when a remote/local target terminates: exit or down, about `target`, with `reason` -/
structure TNotif where
  to : Pid
  kind : NKind
  target : Target
  reason : Nat
deriving DecidableEq, Repr

def tnotifOf (t : Target) (reason : Nat) (k : Key) : TNotif :=
  ⟨k.consumer, if k.monitor then .down else .exit, t, reason⟩

/-- RouteTerminatePID / ProcessID / Alias / Event (node/core.go), the part that runs on node `self`:
    `CleanupTarget(target)`, then one `sendExitMessage` per link holder and one `RouteSendPID(MessageDown*)` per
    monitor holder.  Holders living on `self` get the message in their mailbox; for holders on other nodes the message
    cannot be delivered locally (sendExitMessage: unknown process; MessageDown*: not encodable) — they are served by
    the Terminate frame below. -/
def terminateLocal (self : Node) (s : St) (t : Target) (reason : Nat) : St × List TNotif :=
  let r := cleanupTarget s t
  (r.1, (r.2.filter (fun k => decide (k.consumer.node = self))).map (tnotifOf t reason))

/-- the nodes that get ONE `SendTerminate*` frame each (`remote[pid.Node] = true`); the receiving node runs
    `terminateLocal` on its own table with the reason carried by the frame -/
def terminateFrames (self : Node) (s : St) (t : Target) : List Node :=
  (((cleanupTarget s t).2.filter (fun k => decide (k.consumer.node ≠ self))).map (·.consumer.node)).eraseDups


end ErgoVerif.TM

package main

// C01 / C02 / C05 on processes: K3 lockstep of the real node against Model/Proc.lean plus the
// properties' own oracles. The three properties share the engine (k3proc.go); each reports the
// oracles that belong to it.

import (
	"encoding/json"
	"errors"
	"fmt"
	"os"
	"path/filepath"
	"sort"
	"strings"
	"time"

	"ergo.services/ergo/gen"
)

func init() {
	props["C01"] = func(c *Ctx) { runProcK3(c, "C01"); runMetaK3(c, "C01") }
	props["C05"] = func(c *Ctx) { runProcK3(c, "C05"); runMetaK3(c, "C05"); c05supReason(c) }
	props["C02"] = func(c *Ctx) { runProcK3(c, "C02"); runC02Extra(c); c02conserve(c) }
}

type k3replay struct {
	Scenario k3scenario `json:"scenario"`
	Trace    []string   `json:"trace,omitempty"`
}

// the D7 witness (two Kills on a running process): kept as a corpus entry that runs first
func d7Scenario(actor bool) k3scenario {
	return k3scenario{Actor: actor, Ops: []k3op{{Name: "S0", Op: "send", ID: 1}, {Name: "K1", Op: "kill"}, {Name: "K2", Op: "kill"}},
		Choices: []string{"start:I", "step:I", "step:I", "step:I", "step:I", // init, storeSleep, runCas, runGo
			"step:G1",                                                             // runner: start -> casSleep (empty mailbox)
			"start:S0", "step:S0", "step:S0", "step:S0", "step:G1", "step:G1", // S0 pushes+links; runner to sleep, recheck sees mail
			"step:G1",              // casRun -> cb:handle (inside the callback)
			"start:K1", "start:K2", // two killers
			"step:K1", "step:K2", "step:K2", "step:K2", // K1 swapZ(running) returns; K2 swapZ(zombee) ... swapT, go
			"step:G2", // terminate goroutine enters ProcessTerminate while the handler is still running
		}}
}

func runProcK3(c *Ctx, prop string) {
	r := c.R
	r.Rule = "K3 controlled schedules of the real node (yield hooks at every state-word operation, push/link, callbacks) on one target process: " +
		"2-6 operation threads (send by name/pid x 3 priorities, exit signal, Kill, crash/panic/call messages), raw and act.Actor behaviours, " +
		"unbounded and bounded mailboxes, uniform and priority-with-change-points schedulers; every step is translated to labels of Model/Proc.lean and " +
		"state word, mailbox length and the per-program-point thread census are compared with the model after every step; " +
		"non-trivial = at least two threads were parked simultaneously at some step and >= 12 steps; distinct by the full choice sequence"
	node, err := startQuietNode("k3n")
	if err != nil {
		r.Disagree("k3.node", err.Error(), nil)
		return
	}
	defer node.StopForce()
	helper, err := node.Spawn(func() gen.ProcessBehavior { return &k3helper{} }, gen.ProcessOptions{})
	if err != nil {
		r.Disagree("k3.helper", err.Error(), nil)
		return
	}
	var runs []*k3run
	seq := 0
	doRun := func(sc k3scenario, rng *Rng, mode int) *k3run {
		seq++
		if seq%25 == 1 {
			c.Progress(map[string]interface{}{"about": "K3 schedule in progress (this or one of the next 24; schedules derive from the seed)", "seq": seq, "scenario": sc, "seed": c.Seed})
		}
		run := runK3(node, helper, sc, rng, mode, seq)
		runs = append(runs, run)
		return run
	}
	if c.Replay != "" {
		b, err := os.ReadFile(c.Replay)
		if err == nil {
			var f struct {
				Replay k3replay `json:"replay"`
			}
			if json.Unmarshal(b, &f) == nil && len(f.Replay.Scenario.Choices) > 0 {
				doRun(f.Replay.Scenario, c.Rng, 0)
			}
		}
	} else {
		// corpus first
		doRun(d7Scenario(true), c.Rng, 0)
		doRun(d7Scenario(false), c.Rng, 0)
		files, _ := filepath.Glob(filepath.Join(c.Verif, "corpus", "K3", "*.json"))
		sort.Strings(files)
		for _, fn := range files {
			b, err := os.ReadFile(fn)
			if err != nil {
				continue
			}
			var sc k3scenario
			if json.Unmarshal(b, &sc) == nil && len(sc.Choices) > 0 {
				doRun(sc, c.Rng, 0)
			}
		}
		n := c.N(1500, 60000)
		for i := 0; i < n; i++ {
			sc := genK3Scenario(c.Rng)
			doRun(sc, c.Rng, i%2)
		}
	}
	// ---- model lockstep (one batch) ------------------------------------------------------
	var lines []string
	for _, run := range runs {
		lines = append(lines, run.modelLines()...)
		lines = append(lines, "final")
	}
	outs, err := Model("proc", lines)
	if err != nil {
		r.Disagree("proc.driver", err.Error(), nil)
		return
	}
	pos := 0
	for ri, run := range runs {
		pos++ // reset
		bad := ""
		maxPar := 0
		for si := range run.steps {
			got := outs[pos]
			pos++
			par := 0
			for _, v := range run.steps[si].census {
				par += v
			}
			if par > maxPar {
				maxPar = par
			}
			if bad == "" && got != run.steps[si].expect() {
				bad = fmt.Sprintf("step %d labels %v: model %q, implementation %q", si, run.steps[si].labels, got, run.steps[si].expect())
			}
		}
		final := outs[pos]
		pos++
		key := strings.Join(run.sc.Choices, " ")
		r.Case(key, maxPar >= 2 && len(run.steps) >= 12)
		r.CountN("steps", len(run.steps))
		if run.stuck != "" {
			r.Count("inconclusive:" + strings.SplitN(run.stuck, ":", 2)[0])
			if len(r.Notes) < 5 {
				r.Note("inconclusive schedule: %s; trace tail %v", run.stuck, tail(run.trace, 6))
			}
		}
		if ri < 2 {
			continue // the D7 corpus entries are judged below by the oracles only
		}
		if bad != "" && run.stuck == "" {
			r.Disagree("K3 Model.Proc ~ process.run/Kill/send lockstep", bad, k3replay{run.sc, tail(run.trace, 40)})
		}
		if bad == "" && run.stuck == "" {
			// final counters
			want := fmt.Sprintf("handled=%d", len(run.handled))
			if run.exits == 0 && !strings.Contains(final, want+" ") {
				r.Disagree("K3 Model.Proc final counters", fmt.Sprintf("implementation handled %d messages, model says %q", len(run.handled), final), k3replay{run.sc, tail(run.trace, 40)})
			}
			if !strings.Contains(final, fmt.Sprintf("terms=%d ", run.terms)) {
				r.Disagree("K3 Model.Proc final counters", fmt.Sprintf("implementation ran ProcessTerminate %d times, model says %q", run.terms, final), k3replay{run.sc, tail(run.trace, 40)})
			}
		}
	}
	// ---- property oracles on the implementation --------------------------------------------
	for ri, run := range runs {
		rp := k3replay{run.sc, tail(run.trace, 60)}
		d7 := ri < 2 && c.Replay == ""
		switch prop {
		case "C01":
			if run.overlap {
				sig := "C01/overlap"
				if isDoubleKill(run) {
					sig = "C01/D7-double-kill-overlap"
				}
				r.Violation(sig, "two callbacks of the target process executed at the same time (overlap detector inside the puppet callbacks)", rp)
			}
			_ = d7
		case "C02":
			seen := map[int]bool{}
			for _, id := range run.handled {
				if seen[id] {
					r.Violation("C02/handled-twice", fmt.Sprintf("message %d was handled twice", id), rp)
				}
				seen[id] = true
				if run.errSends[id] {
					r.Violation("C02/refused-but-handled", fmt.Sprintf("send of message %d reported an error but the message was handled", id), rp)
				}
			}
			if run.stuck == "" && run.finalSt == int(gen.ProcessStateSleep) {
				r.Count("ended-asleep")
				if run.finalLen != 0 {
					r.Violation("C02/lost-wakeup", fmt.Sprintf("all threads finished, process asleep, %d message(s) left in the mailbox: nobody will look at them", run.finalLen), rp)
				}
				for id := range run.okSends {
					if !seen[id] {
						r.Violation("C02/accepted-not-handled", fmt.Sprintf("send of message %d returned nil, the process is alive and idle, but the message was never handled", id), rp)
					}
				}
			}
		case "C05":
			if run.terms > 1 {
				r.Violation("C05/terminate-twice", fmt.Sprintf("ProcessTerminate ran %d times", run.terms), rp)
			}
			if run.afterTrm > 0 {
				sig := "C05/callback-after-terminate"
				if isDoubleKill(run) {
					sig = "C05/D7-double-kill-callback-after-terminate"
				}
				r.Violation(sig, "a callback of the process was entered after ProcessTerminate had started", rp)
			}
			if run.overlap && run.terms >= 1 {
				sig := "C05/terminate-overlaps-callback"
				if isDoubleKill(run) {
					sig = "C05/D7-double-kill-terminate-overlaps"
				}
				r.Violation(sig, "ProcessTerminate ran while another callback of the process was executing (not after the last callback)", rp)
			}
			if run.stuck == "" && run.finalSt == int(gen.ProcessStateTerminated) && run.terms != 1 {
				r.Violation("C05/terminated-without-terminate", fmt.Sprintf("process ended in state terminated but ProcessTerminate ran %d times", run.terms), rp)
			}
			if run.terms == 1 && run.reason != nil {
				rs := run.reason.Error()
				switch {
				case run.reason == gen.TerminateReasonKill && run.kills == 0:
					r.Violation("C05/reason-kill-without-kill", "terminate reason is 'kill' but no Kill was issued", rp)
				case run.reason == gen.TerminateReasonPanic && run.panics == 0:
					r.Violation("C05/reason-panic-without-panic", "terminate reason is 'panic' but no handler panicked", rp)
				case rs == "boom" && run.crashes == 0:
					r.Violation("C05/reason-error-without-error", "terminate reason is the handler error but no handler returned it", rp)
				case strings.Contains(rs, "exit-signal") && run.exits == 0:
					r.Violation("C05/reason-exit-without-exit", "terminate reason is an exit signal that was never sent", rp)
				}
				if run.kills == 0 && run.panics == 0 && run.exits == 0 && run.crashes > 0 && rs != "boom" {
					r.Violation("C05/reason-wrong", fmt.Sprintf("only cause was a handler error, reason was %q", rs), rp)
				}
				if run.kills > 0 && run.panics == 0 && run.exits == 0 && run.crashes == 0 && run.reason != gen.TerminateReasonKill {
					r.Violation("C05/reason-wrong", fmt.Sprintf("only cause was Kill, reason was %q", rs), rp)
				}
			}
			if run.terms == 1 {
				r.Count("terminated")
			}
		}
		if ri < 3 {
			r.Sample(map[string]interface{}{"scenario": run.sc, "steps": len(run.steps), "trace_tail": tail(run.trace, 8)})
		}
	}
}

func isDoubleKill(run *k3run) bool { return run.kills >= 2 }

// c05supReason: a supervisor that is being shut down by an exit signal from outside terminates with THAT reason, also
// when the child whose exit arrives last died for a reason of its own (it was busy and got killed meanwhile).
func c05supReason(c *Ctx) {
	r := c.R
	k, err := NewK4("c05s")
	if err != nil {
		return
	}
	defer k.Stop()
	rounds := c.N(12, 200)
	for it := 0; it < rounds; it++ {
		l := &c10log{}
		// the first rounds enumerate supervisor type x cause of the last child's death; later rounds are random
		spec := &c10spec{Kind: "sup", SupType: it % 3, Strategy: c.Rng.Intn(3), Keep: c.Rng.Bool(),
			Children: []*c10spec{{Kind: "leaf"}, {Kind: "leaf"}, {Kind: "leaf"}}}
		sup, err := k.Node.Spawn(c10factory(l, spec), gen.ProcessOptions{})
		if err != nil {
			continue
		}
		c10settle(k, l)
		var kids []gen.PID
		for _, e := range l.snapshot() {
			if e.kind == "spawn" && e.pid != sup {
				kids = append(kids, e.pid)
			}
		}
		if len(kids) < 2 {
			k.Node.Kill(sup)
			continue
		}
		busy := kids[c.Rng.Intn(len(kids))]
		b := c10block{entered: make(chan struct{}), gate: make(chan struct{})}
		k.Node.Send(busy, b)
		select {
		case <-b.entered:
		case <-time.After(2 * time.Second):
			k.Node.Kill(sup)
			continue
		}
		cause := errors.New("stop-requested-from-outside")
		k.Node.SendExit(sup, cause)
		// the other children obey the forwarded shutdown
		waitUntil(2*time.Second, func() bool {
			n := 0
			for _, kid := range kids {
				if kid != busy && !k.Alive(kid) {
					n++
				}
			}
			return n == len(kids)-1
		})
		// the busy child dies for a reason of its own; its exit is the last one the supervisor waits for
		own := (it / 3) % 2
		if it >= 6 {
			own = c.Rng.Intn(2)
		}
		if own == 0 {
			k.Node.Kill(busy)
		}
		close(b.gate)
		if own == 1 {
			// it finishes the blocked callback and then handles the forwarded shutdown normally
		}
		waitUntilGone(k, sup)
		c10settle(k, l)
		var reason error
		for _, e := range l.snapshot() {
			if e.kind == "term" && e.pid == sup {
				reason = e.reason
			}
		}
		r.Case(fmt.Sprintf("supreason/%d/%d/%d/%v/%d", spec.SupType, spec.Strategy, own, spec.Keep, it), own == 0)
		rp := map[string]interface{}{"supervisor": specString(spec), "last_child_died_by": []string{"kill", "forwarded shutdown"}[own]}
		if k.Alive(sup) {
			r.Count("inconclusive:sup-alive")
			k.Node.Kill(sup)
			continue
		}
		if reason == nil || !strings.Contains(reason.Error(), cause.Error()) {
			r.Violation("C05/supervisor-shutdown-reason", fmt.Sprintf("a supervisor shut down by an exit signal (%q) terminated with reason %v", cause, reason), rp)
		}
		r.Count("supreason")
	}
}

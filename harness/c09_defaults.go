package main

import (
	"fmt"
	"strings"
	"time"

	"ergo.services/ergo"
	"ergo.services/ergo/act"
	"ergo.services/ergo/gen"
)

// c09defaults: the step before the state machines — Supervisor.ProcessInit fills in zero restart options. A real
// one-for-one supervisor (Permanent, one child) on a real node is configured with (Intensity, Period) pairs in which
// none, one or both are zero; its child is crashed again and again, as fast as it comes back. It must give up exactly
// at failure number eff.intensity+1 (all failures fall well inside eff.period seconds), where eff is Model/SupDefaults
// (driver "window", line "eff i p").
func c09defaults(c *Ctx) {
	r := c.R
	node, err := ergo.StartNode(gen.Atom(fmt.Sprintf("c09d-%d@localhost", time.Now().UnixNano()%100000)),
		gen.NodeOptions{Log: gen.LogOptions{Level: gen.LogLevelDisabled}, Network: gen.NetworkOptions{Mode: gen.NetworkModeDisabled}})
	if err != nil {
		r.Note("c09defaults skipped: cannot start a node: %v", err)
		r.Count("c09defaults.inconclusive")
		return
	}
	defer node.StopForce()
	type cfg struct{ i, p int }
	cfgs := []cfg{{0, 0}, {2, 0}, {0, 5}, {1, 0}, {0, 30}, {3, 10}, {4, 0}}
	n := c.N(3, 30)
	for x := 0; x < n; x++ {
		cfgs = append(cfgs, cfg{c.Rng.Intn(5), []int{0, 0, 5, 10, 60}[c.Rng.Intn(5)]})
	}
	var lines []string
	for _, cf := range cfgs {
		lines = append(lines, fmt.Sprintf("eff %d %d", cf.i, cf.p))
	}
	outs, err := Model("window", lines)
	if err != nil {
		r.Disagree("window.driver", err.Error(), nil)
		return
	}
	for ci, cf := range cfgs {
		var effK, effP int
		if n, _ := fmt.Sscanf(outs[ci], "%d %d", &effK, &effP); n != 2 {
			r.Disagree("window.driver", fmt.Sprintf("%q -> %q", lines[ci], outs[ci]), nil)
			return
		}
		k4Seq++
		name := fmt.Sprintf("d%d_c0", k4Seq)
		sc := &k4Scenario{}
		sc.spec = act.SupervisorSpec{Type: act.SupervisorTypeOneForOne,
			Restart:  act.SupervisorRestart{Strategy: act.SupervisorStrategyPermanent, Intensity: uint16(cf.i), Period: uint16(cf.p)},
			Children: []act.SupervisorChildSpec{{Name: gen.Atom(name), Factory: k4ChildFactory, Args: []any{sc, name}}}}
		supPid, err := node.Spawn(k4SupFactory, gen.ProcessOptions{}, sc)
		if err != nil {
			r.Disagree("c09defaults supervisor start", fmt.Sprintf("intensity=%d period=%d: %v", cf.i, cf.p, err), nil)
			return
		}
		t0 := time.Now()
		failures := 0
		gaveUpAt := 0
		term := ""
		state := func() (gen.PID, bool, string) {
			var cur gen.PID
			alive := false
			t := ""
			for _, e := range sc.snapshot() {
				switch e.Kind {
				case "start":
					cur, alive = e.PID, true
				case "term":
					if e.PID == cur {
						alive = false
					}
				case "supterm":
					t = e.Reason
				}
			}
			return cur, alive, t
		}
		for failures < effK+3 {
			var cur gen.PID
			ok := waitUntil(5*time.Second, func() bool {
				var alive bool
				cur, alive, term = state()
				return alive || term != ""
			})
			if term != "" || !ok {
				break
			}
			failures++
			node.Send(cur, supReason("o1"))
			// the outcome of this failure: a new child, or the supervisor is gone
			waitUntil(5*time.Second, func() bool {
				p, alive, t := state()
				term = t
				return t != "" || (alive && p != cur)
			})
			if term != "" {
				gaveUpAt = failures
				break
			}
		}
		elapsed := time.Since(t0)
		node.Kill(supPid)
		k4Quiesce(sc)
		if elapsed > time.Duration(effP)*time.Second-500*time.Millisecond {
			r.Count("c09defaults.inconclusive-too-slow")
			continue
		}
		r.Case(fmt.Sprintf("defaults/%d/%d", cf.i, cf.p), cf.i == 0 || cf.p == 0)
		r.Count("c09defaults.configs")
		hist := fmt.Sprintf("one-for-one Permanent supervisor written with Intensity=%d Period=%d (effective %d restarts in %d s): its only child fails %d times within %d ms",
			cf.i, cf.p, effK, effP, failures, elapsed.Milliseconds())
		rp := map[string]interface{}{"intensity": cf.i, "period": cf.p, "effective_intensity": effK, "effective_period_s": effP, "failures": failures, "elapsed_ms": elapsed.Milliseconds()}
		switch {
		case gaveUpAt == 0:
			r.Violation("C09/no-give-up-real-node", hist+": the supervisor is still restarting (it must give up at failure "+fmt.Sprint(effK+1)+")", rp)
		case gaveUpAt != effK+1:
			r.Violation("C09/give-up-count-real-node", fmt.Sprintf("%s: it gave up at failure %d with %q, it must give up at failure %d", hist, gaveUpAt, term, effK+1), rp)
		case !strings.Contains(term, "exceeded"):
			r.Violation("C09/give-up-reason-real-node", fmt.Sprintf("%s: it terminated with %q, not with the restart-intensity reason", hist, term), rp)
		}
	}
}

package main

import (
	"crypto/sha256"
	"fmt"
	"io"
	"net"
	"strings"
	"time"

	"ergo.services/ergo/gen"
	"ergo.services/ergo/net/handshake"
)

// The adversary driver of C15 (see c15_hs.go). A script is a list of steps; every field of every
// message exists twice: as the model's term and as the concrete string, so the same script is run
// against Model.Handshake and against the real Accept / Start / Join.

type sf struct{ sym, val string } // a string field: symbolic term and value

type advStep struct {
	kind  string // hello join intro accept other raw
	node  int    // join / intro: node name number
	f     []sf   // string fields in model order
	info  [4]int // intro: creation flags max version
	raw   []byte // raw: bytes to send (truncation, garbage); closes afterwards
	desc  string
	adapt []string // per field: "" | "salt" | "digest" | "nocookie-hash" — filled from the victim's reply
}

func (s advStep) sym() string {
	switch s.kind {
	case "hello":
		return fmt.Sprintf("hello,%s,%s", s.f[0].sym, s.f[1].sym)
	case "join":
		return fmt.Sprintf("join,%d,%s,%s,%s", s.node, s.f[0].sym, s.f[1].sym, s.f[2].sym)
	case "intro":
		return fmt.Sprintf("intro,%d,%d,%d,%d,%d,%s", s.node, s.info[0], s.info[1], s.info[2], s.info[3], s.f[0].sym)
	case "accept":
		return fmt.Sprintf("accept,%s,0,%s", s.f[0].sym, s.f[1].sym)
	}
	return "other"
}

func (s advStep) msg() any {
	switch s.kind {
	case "hello":
		return handshake.MessageHello{Salt: s.f[0].val, Digest: s.f[1].val}
	case "join":
		return handshake.MessageJoin{Node: gen.Atom(fmt.Sprintf("node%d@host", s.node)), ConnectionID: s.f[0].val, Salt: s.f[1].val, Digest: s.f[2].val}
	case "intro":
		return handshake.MessageIntroduce{Node: gen.Atom(fmt.Sprintf("node%d@host", s.node)), Creation: int64(s.info[0]), Flags: flagsOf(s.info[1]),
			MaxMessageSize: s.info[2], Version: hsVersions[s.info[3]], Digest: s.f[0].val}
	case "accept":
		return handshake.MessageAccept{ID: s.f[0].val, Digest: s.f[1].val}
	}
	return gen.Version{Name: "not-a-handshake-message"} // a registered type that is not a handshake message
}

func sha(s string) string { h := sha256.Sum256([]byte(s)); return fmt.Sprintf("%x", h[:]) }

// pool of fields the adversary can use: everything recorded (with its term), combinations, own strings
type advPool struct {
	all     []sf
	salts   []sf // (salt, matching hello digest) pairs are kept by index
	hdig    []sf
	joins   [][3]sf // recorded (id, salt, digest)
	flaws   [][3]sf // (sA, dI, d2) of a main handshake: a valid Join triple by type flaw
	introDs []sf
}

func buildPool(rec []*hsSession, cookie string) *advPool {
	p := &advPool{}
	for k, s := range rec {
		nI, nA, nID, nJ := 10+4*k, 11+4*k, 12+4*k, 13+4*k
		sI := sf{fmt.Sprintf("N%d", nI), s.sI}
		sA := sf{fmt.Sprintf("N%d", nA), s.sA}
		id := sf{fmt.Sprintf("N%d", nID), s.idA}
		dI := sf{fmt.Sprintf("H(N%d:C1)", nI), sha(s.sI + ":" + cookie)}
		d2 := sf{fmt.Sprintf("H(N%d:H(N%d:C1):C1)", nA, nI), sha(s.sA + ":" + dI.val + ":" + cookie)}
		dIn := sf{fmt.Sprintf("H(N%d:C1)", nA), sha(s.sA + ":" + cookie)}
		p.salts = append(p.salts, sI)
		p.hdig = append(p.hdig, dI)
		p.introDs = append(p.introDs, dIn)
		p.flaws = append(p.flaws, [3]sf{sA, dI, d2})
		p.all = append(p.all, sI, sA, id, dI, d2, dIn,
			sf{sA.sym + ":" + dI.sym, sA.val + ":" + dI.val}, // two recorded values joined: one string, two atoms
			sf{sI.sym + ":" + sA.sym, sI.val + ":" + sA.val})
		if s.joinMsg != nil {
			sJ := sf{fmt.Sprintf("N%d", nJ), s.joinMsg.Salt}
			dJ := sf{fmt.Sprintf("H(N%d:N%d:C1)", nID, nJ), s.joinMsg.Digest}
			p.joins = append(p.joins, [3]sf{id, sJ, dJ})
			p.all = append(p.all, sJ, dJ, sf{id.sym + ":" + sJ.sym, id.val + ":" + sJ.val})
			if s.joinAccept != nil {
				p.all = append(p.all, sf{fmt.Sprintf("H(H(N%d:N%d:C1):C1)", nID, nJ), s.joinAccept.Digest})
			}
		}
	}
	p.all = append(p.all, sf{"N0", ""}, sf{"N900", "adversary-string"}, sf{"N901", "x"},
		sf{"H(N900:N901)", sha("adversary-string:x")}, sf{"H(N900)", sha("adversary-string")})
	return p
}

func (p *advPool) any(rng *Rng) sf { return p.all[rng.Intn(len(p.all))] }

// runScript plays the steps against a victim function running on the other end of a pipe.
// victim: "accept" | "start" | "join". Returns the victim's result/error and the messages it sent.
type advRun struct {
	res     gen.HandshakeResult
	err     error
	replies []any
	panic   string
}

func playScript(rng *Rng, victim string, cfg hsCfg, joinID string, steps []advStep) (out advRun, final []advStep) {
	hs := handshake.Create(handshake.Options{PoolSize: 3})
	a, b := net.Pipe()
	done := make(chan struct{})
	go func() {
		defer close(done)
		defer func() {
			if p := recover(); p != nil {
				out.panic = fmt.Sprint(p)
			}
			b.Close()
		}()
		switch victim {
		case "accept":
			out.res, out.err = hs.Accept(cfg.node(), b, cfg.opts())
		case "start":
			out.res, out.err = hs.Start(cfg.node(), b, cfg.opts())
		case "join":
			_, out.err = hs.Join(cfg.node(), b, joinID, cfg.opts())
		}
	}()
	var tail []byte
	readReply := func() bool {
		v, t, err := handshake.VerifReadMessage(a, 3*time.Second, tail)
		if err != nil {
			return false
		}
		tail = t
		out.replies = append(out.replies, v)
		return true
	}
	lastSalt, lastDigest := "", ""
	note := func() {
		for _, v := range out.replies {
			switch m := v.(type) {
			case handshake.MessageHello:
				lastSalt, lastDigest = m.Salt, m.Digest
			case handshake.MessageJoin:
				lastSalt, lastDigest = m.Salt, m.Digest
			}
		}
	}
	alive := true
	if victim != "accept" {
		// the victim speaks first
		alive = readReply()
		note()
	}
	for _, st := range steps {
		if !alive {
			break
		}
		for i, ad := range st.adapt {
			switch ad {
			case "salt":
				st.f[i].val = lastSalt
			case "digest":
				st.f[i].val = lastDigest
			case "nocookie-hash":
				st.f[i].val = sha(lastSalt + ":adversary-string")
			case "nocookie-hash2":
				st.f[i].val = sha("adversary-string:" + lastDigest)
			}
		}
		final = append(final, st)
		if st.kind == "raw" {
			// whatever the victim answers meanwhile is drained, so that nobody blocks on the synchronous pipe
			go io.Copy(io.Discard, a)
			if len(st.raw) > 0 {
				a.Write(st.raw)
			}
			break
		}
		sc := &scriptConn{}
		if err := handshake.VerifWriteMessage(sc, st.msg()); err != nil {
			break
		}
		if _, err := a.Write(sc.wrote.Bytes()); err != nil {
			break
		}
		// what does the victim do next: reply (Hello2 / Accept+Intro2 / join Accept) or close
		switch {
		case victim == "accept" && st.kind == "hello" && len(out.replies) == 0:
			alive = readReply()
			note()
		case victim == "accept" && st.kind == "intro" && len(out.replies) == 1:
			alive = readReply() && readReply()
		case victim == "accept" && st.kind == "join" && len(out.replies) == 0:
			alive = readReply()
			alive = false
		case victim == "start" && st.kind == "hello" && len(out.replies) == 1:
			alive = readReply() // Introduce
		case victim == "start" && st.kind == "intro" && len(out.replies) == 2:
			alive = readReply() // final Accept
		}
	}
	a.Close()
	select {
	case <-done:
	case <-time.After(5 * time.Second):
		out.err = fmt.Errorf("harness timeout: victim did not return")
	}
	return out, final
}

type advCase struct {
	Victim string   `json:"victim"`
	Cfg    hsCfg    `json:"victim_cfg"`
	Steps  []string `json:"script"`
	Model  string   `json:"model_script"`
}

func runAdversary(c *Ctx, rec []*hsSession) {
	r := c.R
	rng := c.Rng
	cookie := hsCookies[1]
	// make sure every recorded session has a recorded join
	for _, s := range rec {
		if s.joinMsg == nil {
			toA, toI, rawA, errJ, errA, _ := runHonestJoin(rng, s.cI, s.cA, s.idA)
			if errJ == nil && errA == nil && len(toA) == 1 {
				if jm, ok := toA[0].(handshake.MessageJoin); ok {
					s.joinMsg, s.joinRaw = &jm, rawA
					if len(toI) == 1 {
						if am, ok := toI[0].(handshake.MessageAccept); ok {
							s.joinAccept = &am
						}
					}
				}
			}
		}
	}
	pool := buildPool(rec, cookie)
	victim := hsCfg{Name: 7, Creation: 4242, Flags: 127, Max: 0, Version: 1, Cookie: 1}
	nonceOf := func(k int) map[int]string {
		m := map[int]string{0: "", 900: "adversary-string", 901: "x"}
		for k, s := range rec {
			m[10+4*k], m[11+4*k], m[12+4*k] = s.sI, s.sA, s.idA
			if s.joinMsg != nil {
				m[13+4*k] = s.joinMsg.Salt
			}
		}
		_ = k
		return m
	}
	type job struct {
		victim string
		steps  []advStep
		what   string
		joinID sf
	}
	var jobs []job
	introStep := func(d sf, adapt string) advStep {
		return advStep{kind: "intro", node: 1 + rng.Intn(3), info: [4]int{1 + rng.Intn(1000), 127, 0, 1}, f: []sf{d}, adapt: []string{adapt}}
	}
	acceptStep := advStep{kind: "accept", f: []sf{{"N0", ""}, {"N0", ""}}, adapt: []string{"", ""}}
	// ---- fixed witnesses, replayed on every run -------------------------------------------------
	if len(pool.joins) > 0 {
		j := pool.joins[0]
		jobs = append(jobs, job{victim: "accept", what: "witness: verbatim replay of a recorded Join",
			steps: []advStep{{kind: "join", node: rec[0].cI.Name, f: []sf{j[0], j[1], j[2]}, adapt: []string{"", "", ""}}}})
	}
	fl := pool.flaws[0]
	jobs = append(jobs, job{victim: "accept", what: "witness: acceptor Hello digest of a recorded MAIN handshake presented as a Join (type flaw), under a name of the adversary's choice",
		steps: []advStep{{kind: "join", node: 99, f: []sf{fl[0], fl[1], fl[2]}, adapt: []string{"", "", ""}}}})
	// ---- verbatim replay of every recorded initiator message at every step -------------------------
	for k, s := range rec {
		msgs := []advStep{
			{kind: "hello", f: []sf{pool.salts[k], pool.hdig[k]}, adapt: []string{"", ""}},
			{kind: "intro", node: s.cI.Name, info: [4]int{s.cI.Creation, s.cI.Flags, s.cI.Max, s.cI.Version}, f: []sf{pool.introDs[k]}, adapt: []string{""}},
			acceptStep,
		}
		jobs = append(jobs, job{victim: "accept", what: "verbatim replay of a whole recorded session", steps: msgs})
		for i := range msgs {
			for j2 := range msgs {
				jobs = append(jobs, job{victim: "accept", what: "recorded messages in every order", steps: []advStep{msgs[i], msgs[j2], acceptStep}})
			}
		}
	}
	// ---- random scripts against Accept -------------------------------------------------------------
	n := c.N(500, 12000)
	for i := 0; i < n; i++ {
		var steps []advStep
		k := rng.Intn(len(rec))
		switch rng.Intn(10) {
		case 0, 1, 2, 3, 4: // Hello that passes the first check (recorded pair, or a type-flaw pair), then an Introduce
			var h advStep
			switch rng.Intn(4) {
			case 0: // Salt = "sA:dI" (one string, two atoms), Digest = recorded acceptor digest H(sA:dI:c)
				f := pool.flaws[k]
				h = advStep{kind: "hello", f: []sf{{f[0].sym + ":" + f[1].sym, f[0].val + ":" + f[1].val}, f[2]}, adapt: []string{"", ""}}
			case 1: // Salt = "id:sJ", Digest = recorded join digest
				if len(pool.joins) > 0 {
					j := pool.joins[rng.Intn(len(pool.joins))]
					h = advStep{kind: "hello", f: []sf{{j[0].sym + ":" + j[1].sym, j[0].val + ":" + j[1].val}, j[2]}, adapt: []string{"", ""}}
					break
				}
				fallthrough
			default:
				h = advStep{kind: "hello", f: []sf{pool.salts[k], pool.hdig[k]}, adapt: []string{"", ""}}
			}
			var in advStep
			switch rng.Intn(6) {
			case 0:
				in = introStep(pool.introDs[rng.Intn(len(pool.introDs))], "") // recorded Introduce digest (old salt)
			case 1:
				in = introStep(sf{"@digest", ""}, "digest") // echo the digest the victim just sent
			case 2:
				in = introStep(sf{"H(N2:N900)", ""}, "nocookie-hash") // hash of the fresh salt without the cookie
			case 3:
				in = introStep(sf{"N2", ""}, "salt") // the fresh salt itself
			case 4:
				in = introStep(pool.any(rng), "")
			default:
				in = introStep(sf{"H(N900:@digest)", ""}, "nocookie-hash2")
			}
			steps = []advStep{h, in, acceptStep}
		case 5: // Hello from arbitrary pool fields
			steps = []advStep{{kind: "hello", f: []sf{pool.any(rng), pool.any(rng)}, adapt: []string{"", ""}}, introStep(pool.any(rng), ""), acceptStep}
		case 6, 7: // Join from pool fields, biased to recorded triples with one field exchanged
			var f []sf
			if len(pool.joins) > 0 && rng.Bool() {
				j := pool.joins[rng.Intn(len(pool.joins))]
				f = []sf{j[0], j[1], j[2]}
			} else {
				fl := pool.flaws[k]
				f = []sf{fl[0], fl[1], fl[2]}
			}
			if rng.Chance(2, 3) {
				f[rng.Intn(3)] = pool.any(rng)
			}
			if rng.Chance(1, 6) { // re-split at the colon: id = "a:b", salt = rest
				f = []sf{{f[0].sym + ":" + f[1].sym, f[0].val + ":" + f[1].val}, pool.any(rng), f[2]}
			}
			steps = []advStep{{kind: "join", node: 1 + rng.Intn(120), f: f, adapt: []string{"", "", ""}}}
		case 8: // wrong message type first / in the middle
			if rng.Bool() {
				steps = []advStep{introStep(pool.any(rng), ""), acceptStep}
			} else {
				steps = []advStep{{kind: "hello", f: []sf{pool.salts[k], pool.hdig[k]}, adapt: []string{"", ""}}, {kind: []string{"other", "accept", "hello"}[rng.Intn(3)], f: []sf{pool.any(rng), pool.any(rng)}, adapt: []string{"", ""}}}
			}
		default: // recorded byte stream cut at a random byte, or garbage
			s := rec[k]
			raw := append([]byte(nil), s.rawA...)
			if rng.Bool() && len(s.joinRaw) > 0 {
				raw = append([]byte(nil), s.joinRaw...)
			}
			cut := rng.Intn(len(raw))
			if rng.Chance(1, 4) {
				raw[rng.Intn(len(raw))] ^= 1 << uint(rng.Intn(8))
				cut = len(raw)
			}
			steps = []advStep{{kind: "raw", raw: raw[:cut], desc: fmt.Sprintf("recorded stream cut at %d of %d", cut, len(raw))}}
		}
		jobs = append(jobs, job{victim: "accept", steps: steps, what: "random script"})
	}
	// ---- truncation of a recorded session at EVERY byte (quick: first session; thorough: all) ----------
	for k, s := range rec {
		if k > 0 && !c.Thorough() {
			break
		}
		for cut := 0; cut < len(s.rawA); cut += c.N(7, 1) {
			jobs = append(jobs, job{victim: "accept", what: "truncation", steps: []advStep{{kind: "raw", raw: s.rawA[:cut], desc: fmt.Sprintf("recorded session cut at byte %d", cut)}}})
		}
	}
	// ---- adversary as acceptor against Start ---------------------------------------------------------
	m := c.N(250, 6000)
	for i := 0; i < m; i++ {
		k := rng.Intn(len(rec))
		var h advStep
		switch rng.Intn(7) {
		case 0: // recorded acceptor Hello, verbatim
			f := pool.flaws[k]
			h = advStep{kind: "hello", f: []sf{f[0], f[2]}, adapt: []string{"", ""}}
		case 1: // reflection: the initiator's own salt and digest
			h = advStep{kind: "hello", f: []sf{{"N1", ""}, {"H(N1:C1)", ""}}, adapt: []string{"salt", "digest"}}
		case 2: // recorded salt, hash over the fresh digest without the cookie
			h = advStep{kind: "hello", f: []sf{{"N900", "adversary-string"}, {"H(N900:H(N1:C1))", ""}}, adapt: []string{"", "nocookie-hash2"}}
		case 3: // recorded initiator pair (a Hello of the other direction)
			h = advStep{kind: "hello", f: []sf{pool.salts[k], pool.hdig[k]}, adapt: []string{"", ""}}
		case 4: // join triple as (salt = "id:sJ"? no: salt=id, digest = join digest)
			if len(pool.joins) > 0 {
				j := pool.joins[rng.Intn(len(pool.joins))]
				h = advStep{kind: "hello", f: []sf{j[0], j[2]}, adapt: []string{"", ""}}
				break
			}
			fallthrough
		case 5:
			h = advStep{kind: "hello", f: []sf{pool.any(rng), pool.any(rng)}, adapt: []string{"", ""}}
		default:
			h = advStep{kind: []string{"accept", "other", "intro"}[rng.Intn(3)], node: 3, info: [4]int{1, 127, 0, 1}, f: []sf{pool.any(rng), pool.any(rng)}, adapt: []string{"", ""}}
		}
		steps := []advStep{h, {kind: "accept", f: []sf{pool.any(rng), {"N0", ""}}, adapt: []string{"", ""}}, introStep(sf{"N0", ""}, "")}
		jobs = append(jobs, job{victim: "start", steps: steps, what: "fake acceptor"})
	}
	// ---- adversary as acceptor against Join ----------------------------------------------------------
	for i := 0; i < c.N(120, 3000); i++ {
		k := rng.Intn(len(rec))
		var d sf
		ad := ""
		switch rng.Intn(4) {
		case 0:
			d = sf{"H(N12:N1:C1)", ""} // echo the join digest (N12 = id of session 0 below)
			ad = "digest"
		case 1:
			d = sf{"H(N900:H(N12:N1:C1))", ""}
			ad = "nocookie-hash2"
		default:
			d = pool.any(rng)
		}
		_ = k
		jobs = append(jobs, job{victim: "join", joinID: sf{"N12", rec[0].idA}, what: "fake acceptor for Join",
			steps: []advStep{{kind: "accept", f: []sf{{"N0", ""}, d}, adapt: []string{"", ad}}}})
	}
	// ---- run -------------------------------------------------------------------------------------------
	type ran struct {
		j     job
		run   advRun
		final []advStep
		line  string
	}
	var rans []ran
	var lines []string
	for _, j := range jobs {
		run, final := playScript(rng, j.victim, victim, j.joinID.val, j.steps)
		for try := 0; try < 2 && isTimeout(run.err); try++ {
			r.Count("adv.retried-after-timeout")
			run, final = playScript(rng, j.victim, victim, j.joinID.val, j.steps)
		}
		if isTimeout(run.err) {
			r.Count("adv.inconclusive-timeout")
			continue
		}
		// the model sees the messages actually sent (a raw step = the connection breaks there)
		var syms []string
		for _, st := range final {
			if st.kind == "raw" {
				break
			}
			s := st.sym()
			// adaptive placeholders stand for what the victim sent
			syms = append(syms, s)
		}
		ms := "-"
		if len(syms) > 0 {
			ms = strings.Join(syms, "|")
		}
		var line string
		switch j.victim {
		case "accept":
			line = "accept " + victim.line() + " " + ms
		case "start":
			line = "start " + victim.line() + " " + ms
		default:
			line = "join " + victim.line() + " " + j.joinID.sym + " " + ms
		}
		rans = append(rans, ran{j, run, final, line})
		lines = append(lines, line)
	}
	// adaptive placeholders: the model's own reply terms. First pass: ask the model what the victim sends
	// after the first message, substitute, second pass.
	first := make([]string, len(rans))
	for i, rn := range rans {
		first[i] = rn.line
		if strings.Contains(rn.line, "@digest") {
			f := strings.Fields(rn.line)
			msgs := strings.Split(f[len(f)-1], "|")
			first[i] = strings.Join(append(f[:len(f)-1], msgs[0]), " ")
		}
	}
	out1, err := ModelParallel("handshake", first, 4)
	if err != nil {
		r.Disagree("c15-adv-model", err.Error(), nil)
		return
	}
	for i := range rans {
		if strings.Contains(lines[i], "@digest") {
			// the victim's reply to the first message: hello,<salt>,<digest>
			f := strings.Fields(out1[i])
			d := "N0"
			if len(f) == 2 && strings.HasPrefix(f[1], "hello,") {
				d = strings.Split(f[1], ",")[2]
			}
			lines[i] = strings.ReplaceAll(lines[i], "@digest", d)
			rans[i].line = lines[i]
		}
	}
	out, err := ModelParallel("handshake", lines, 4)
	if err != nil {
		r.Disagree("c15-adv-model", err.Error(), nil)
		return
	}
	seenSig := map[string]bool{}
	for i, rn := range rans {
		var steps []string
		for _, st := range rn.final {
			if st.kind == "raw" {
				steps = append(steps, "raw: "+st.desc)
			} else {
				steps = append(steps, fmt.Sprintf("%#v", st.msg()))
			}
		}
		cs := advCase{Victim: rn.j.victim, Cfg: victim, Steps: steps, Model: rn.line}
		reached := rn.j.victim != "accept" || len(rn.run.replies) > 0 || (len(rn.final) > 0 && rn.final[0].kind == "join")
		r.Case("adv:"+rn.line+fmt.Sprint(len(rn.final)), reached)
		if rn.run.panic != "" {
			r.Violation("C15/handshake-panic", rn.j.victim+" panicked: "+rn.run.panic, cs)
			continue
		}
		got := "err:" + hsErrKind(rn.run.err)
		if rn.run.err == nil {
			got = "ok"
		}
		r.Count("adv." + rn.j.victim + "." + strings.SplitN(rn.j.what, ":", 2)[0] + "." + got)
		// ---- the property itself: nobody without the cookie completes -------------------------------
		if rn.run.err == nil {
			sig := "C15/handshake-completed-without-cookie"
			what := fmt.Sprintf("%s completed for a peer that does not know the cookie (%s)", rn.j.victim, rn.j.what)
			var jst *advStep
			if rn.j.victim == "accept" && len(rn.final) > 0 && rn.final[0].kind == "join" {
				jst = &rn.final[0]
			}
			if rn.j.victim == "accept" && len(rn.final) > 0 && rn.final[0].kind == "raw" {
				// damaged bytes that still decode to a Join (a bit flipped in a part no digest covers, e.g. the node name)
				if ms, _ := splitFrames(rn.final[0].raw); len(ms) > 0 {
					if jm, ok := ms[0].(handshake.MessageJoin); ok {
						jst = &advStep{kind: "join", f: []sf{{"?", jm.ConnectionID}, {"?", jm.Salt}, {"?", jm.Digest}}}
					}
				}
			}
			if jst != nil {
				st := *jst
				sig = "C15/join-forged"
				for _, j := range pool.joins {
					if st.f[0].val == j[0].val && st.f[1].val == j[1].val && st.f[2].val == j[2].val {
						sig = "C15/join-replay"
						what = "Accept completed for a replayed Join message recorded from an earlier session (no cookie needed): the acceptor contributes no nonce to the Join check"
					}
				}
				for _, f := range pool.flaws {
					if st.f[0].val == f[0].val && st.f[1].val == f[1].val && st.f[2].val == f[2].val {
						sig = "C15/join-typeflaw"
						what = fmt.Sprintf("Accept completed for a Join built from a recorded MAIN handshake (ConnectionID = acceptor salt, Salt = initiator digest, Digest = acceptor Hello digest), peer name chosen by the adversary: %s", rn.run.res.Peer)
					}
				}
			}
			if !seenSig[sig] || (sig != "C15/join-replay" && sig != "C15/join-typeflaw") {
				seenSig[sig] = true
				r.Violation(sig, what, cs)
			}
		}
		// ---- correspondence with the model -------------------------------------------------------------
		if len(rn.final) > 0 && rn.final[len(rn.final)-1].kind == "raw" {
			// byte-level damage (truncation, bit flips) has no symbolic counterpart: only the oracle above applies
			r.Count("adv.raw-bytes." + got)
			continue
		}
		f := strings.Fields(out[i])
		if len(f) != 2 {
			r.Disagree("c15-adv", "model output "+out[i], cs)
			continue
		}
		mres := f[0]
		if strings.HasPrefix(mres, "ok,") {
			mres = "ok"
		}
		if mres != got {
			r.Disagree("c15-adv", fmt.Sprintf("%s: model %s, implementation %s (%v)", rn.j.victim, f[0], got, rn.run.err), cs)
			continue
		}
		if strings.HasPrefix(f[0], "ok,") && rn.j.victim == "accept" {
			b := &bindings{nonce: nonceOf(0), cookie: hsCookies}
			exp := strings.Split(f[0], ",")
			want, e := b.evalField(exp[1])
			if e != nil || want != rn.run.res.ConnectionID || fmt.Sprint(nameNum(rn.run.res.Peer)) != exp[2] {
				r.Disagree("c15-adv", fmt.Sprintf("join result: model %s, implementation id=%q peer=%s (%v)", f[0], rn.run.res.ConnectionID, rn.run.res.Peer, e), cs)
				continue
			}
		}
		// what the victim sent: digests recomputed from the model's terms
		b := &bindings{nonce: nonceOf(0), cookie: hsCookies}
		for _, v := range rn.run.replies {
			switch mm := v.(type) {
			case handshake.MessageHello:
				if rn.j.victim == "accept" {
					b.nonce[2] = mm.Salt
				} else {
					b.nonce[1] = mm.Salt
				}
			case handshake.MessageJoin:
				b.nonce[1] = mm.Salt
			case handshake.MessageAccept:
				if mm.ID != "" {
					b.nonce[3] = mm.ID
				}
			}
		}
		sent := f[1]
		if sent != "-" && len(strings.Split(sent, "|")) == len(rn.run.replies) {
			if e := cmpMsgs(sent, rn.run.replies, b); e != "" {
				r.Disagree("c15-adv", "victim's messages: "+e, cs)
				continue
			}
			r.CountN("hs.digests-compared-bytewise", strings.Count(sent, "H("))
		} else if sent == "-" && len(rn.run.replies) > 0 || sent != "-" && len(strings.Split(sent, "|")) < len(rn.run.replies) {
			r.Disagree("c15-adv", fmt.Sprintf("victim sent %d messages, model %s", len(rn.run.replies), sent), cs)
			continue
		}
		if i == 0 || i == len(rans)/2 {
			r.Sample(map[string]interface{}{"part": "hs-adversary", "case": cs, "model": out[i]})
		}
	}
}

import ErgoVerif.Model.Tree
/-!
# C10 — no orphans

`Model/Tree.lean`: ownership by LinkParent links; a terminating process sends an exit signal to every process
linked to it as parent, and an exit from the parent terminates the child whether it traps exits or not.
-/
namespace ErgoVerif.Props.C10
open ErgoVerif ErgoVerif.Tree

/-- invariant: parents are older than their children, and every live process whose linked parent is dead has that
parent's exit signal pending -/
def Inv (c : Cfg) : Prop :=
  ∀ i (p : Proc), c[i]? = some p →
    (∀ q, p.parent = some q → q < i) ∧
    (p.alive = true → ∀ q, p.parent = some q → isAlive c q = true ∨ p.pendingExit = true)

theorem inv_nil : Inv [] := by intro i p h; simp at h

theorem getElem?_kill (c : Cfg) (k i : Nat) :
    (kill c k)[i]? = (c[i]?).map fun p =>
      if i = k then { p with alive := false, pendingExit := false }
      else if p.parent = some k ∧ p.alive then { p with pendingExit := true } else p := by
  simp only [kill, List.getElem?_map, List.getElem?_zipIdx]
  cases c[i]? <;> simp

theorem isAlive_kill (c : Cfg) (k q : Nat) : isAlive (kill c k) q = (isAlive c q && decide (q ≠ k)) := by
  simp only [isAlive, getElem?_kill]
  cases hq : c[q]? with
  | none => simp
  | some p =>
    simp only [Option.map_some]
    by_cases hk : q = k
    · simp [hk]
    · simp only [hk, if_false]
      split <;> simp [hk]

theorem kill_inv (c : Cfg) (k : Nat) (h : Inv c) : Inv (kill c k) := by
  intro i p hp
  rw [getElem?_kill] at hp
  cases hc : c[i]? with
  | none => simp [hc] at hp
  | some p0 =>
    simp only [hc, Option.map_some, Option.some.injEq] at hp
    obtain ⟨hord, hlive⟩ := h i p0 hc
    by_cases hik : i = k
    · simp only [hik, if_true] at hp
      subst hp
      exact ⟨hord, by simp⟩
    · simp only [hik, if_false] at hp
      by_cases hpk : p0.parent = some k ∧ p0.alive = true
      · simp only [hpk, and_self, if_true] at hp
        subst hp
        exact ⟨fun q hq => hord q (by rw [hpk.1]; exact hq), fun _ q _ => Or.inr rfl⟩
      · simp only [hpk, if_false] at hp
        subst hp
        refine ⟨hord, fun ha q hq => ?_⟩
        rcases hlive ha q hq with hal | hpe
        · left
          rw [isAlive_kill, hal]
          simp
          intro hqk
          exact hpk ⟨hqk ▸ hq, ha⟩
        · exact Or.inr hpe

theorem isAlive_append (c : Cfg) (x : Proc) (q : Nat) (hq : q < c.length) : isAlive (c ++ [x]) q = isAlive c q := by
  simp [isAlive, List.getElem?_append_left hq]

theorem isAlive_lt {c : Cfg} {q : Nat} (h : isAlive c q = true) : q < c.length := by
  unfold isAlive at h
  cases hq : c[q]? with
  | none => simp [hq] at h
  | some p => exact (List.getElem?_eq_some_iff.mp hq).1

theorem append_inv (c : Cfg) (x : Proc) (h : Inv c) (hx : ∀ q, x.parent = some q → q < c.length ∧ isAlive c q = true) :
    Inv (c ++ [x]) := by
  intro i p hp
  by_cases hi : i < c.length
  · rw [List.getElem?_append_left hi] at hp
    obtain ⟨hord, hlive⟩ := h i p hp
    refine ⟨hord, fun ha q hq => ?_⟩
    rcases hlive ha q hq with hal | hpe
    · left; rw [isAlive_append c x q (isAlive_lt hal)]; exact hal
    · exact Or.inr hpe
  · have hie : i = c.length := by
      have := (List.getElem?_eq_some_iff.mp hp).1
      simp at this; omega
    subst hie
    simp at hp
    subst hp
    refine ⟨fun q hq => (hx q hq).1, fun _ q hq => Or.inl ?_⟩
    rw [isAlive_append c _ q (hx q hq).1]
    exact (hx q hq).2

theorem step_inv (c : Cfg) (l : Lbl) (c' : Cfg) (h : Inv c) (hs : step c l = some c') : Inv c' := by
  cases l with
  | spawnRoot => simp [step] at hs; subst hs; exact append_inv c _ h (by simp)
  | spawnChild p =>
    simp only [step] at hs
    split at hs
    · rename_i ha
      cases hs
      exact append_inv c _ h (by intro q hq; simp at hq; subst hq; exact ⟨isAlive_lt ha, ha⟩)
    · cases hs
  | die i =>
    simp only [step] at hs
    split at hs
    · cases hs; exact kill_inv c i h
    · cases hs
  | handleExit i =>
    simp only [step] at hs
    split at hs
    · split at hs
      · cases hs; exact kill_inv c i h
      · cases hs
    · cases hs

theorem reach_inv {c : Cfg} (h : Reach c) : Inv c := by
  obtain ⟨ls, hr⟩ := h
  exact run_inv (Inv := Inv) step_inv inv_nil hr

/-- `a` is an ancestor of `i` along LinkParent links -/
inductive Ancestor (c : Cfg) : Nat → Nat → Prop
  | parent {i a : Nat} {p : Proc} : c[i]? = some p → p.parent = some a → Ancestor c a i
  | step {i a b : Nat} {p : Proc} : c[i]? = some p → p.parent = some b → Ancestor c a b → Ancestor c a i

/-- **No orphans.** In every reachable configuration in which no exit signal from a parent is left unhandled,
every live process has all its owners alive: nothing that a (terminated) supervisor, pool or parent started is
still running — for every tree shape and every sequence of kills, crashes, exits and restarts at any moment. -/
theorem C10_no_orphans (c : Cfg) (h : Reach c) (hq : quiescent c) (i a : Nat)
    (hi : isAlive c i = true) (ha : Ancestor c a i) : isAlive c a = true := by
  have hinv := reach_inv h
  induction ha with
  | @parent i a p hp hpar =>
    have hal : p.alive = true := by simpa [isAlive, hp] using hi
    rcases (hinv i p hp).2 hal a hpar with h1 | h2
    · exact h1
    · have := hq p (List.mem_of_getElem? hp) hal
      rw [this] at h2; cases h2
  | @step i a b p hp hpar _ ih =>
    have hal : p.alive = true := by simpa [isAlive, hp] using hi
    have hb : isAlive c b = true := by
      rcases (hinv i p hp).2 hal b hpar with h1 | h2
      · exact h1
      · have := hq p (List.mem_of_getElem? hp) hal
        rw [this] at h2; cases h2
    exact ih hb

/-- the signal is never lost on the way: a live process with a dead parent always has the exit pending -/
theorem C10_exit_pending (c : Cfg) (h : Reach c) (i q : Nat) (p : Proc) (hp : c[i]? = some p)
    (hal : p.alive = true) (hpar : p.parent = some q) (hdead : isAlive c q = false) : p.pendingExit = true := by
  rcases (reach_inv h i p hp).2 hal q hpar with h1 | h2
  · rw [hdead] at h1; cases h1
  · exact h2

/-- non-vacuity: a three-level tree, the middle supervisor is killed, the grandchild follows -/
example : ∃ c, Reach c ∧ quiescent c ∧ isAlive c 0 = true ∧ isAlive c 1 = false ∧ isAlive c 2 = false :=
  ⟨_, ⟨[.spawnRoot, .spawnChild 0, .spawnChild 1, .die 1, .handleExit 2], rfl⟩, by decide, by decide, by decide, by decide⟩

end ErgoVerif.Props.C10

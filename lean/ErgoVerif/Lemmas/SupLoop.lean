import ErgoVerif.Model.SupLoop
/-
Generic facts about the glue (`handleAction`, `step`) that hold for every state machine:
`Supervisor.children` is exactly the set of spawned children whose exit has not been handled yet.
-/
namespace ErgoVerif.Sup

def keys {β : Type} (l : List (Nat × β)) : List Nat := l.map (·.1)

@[simp] theorem mem_keys {β : Type} (l : List (Nat × β)) (p : Nat) : p ∈ keys l ↔ ∃ b, (p, b) ∈ l := by
  simp [keys]

theorem mem_keys_filter_ne {β : Type} (l : List (Nat × β)) (p q : Nat) :
    p ∈ keys (l.filter (fun x => x.1 ≠ q)) ↔ p ∈ keys l ∧ p ≠ q := by
  simp [keys]

theorem mem_keys_filter_ne' {β : Type} (l : List (Nat × β)) (p q : Nat) :
    p ∈ keys (l.filter (fun x => !decide (x.1 = q))) ↔ p ∈ keys l ∧ p ≠ q := by
  simp [keys]

theorem any_keys {β : Type} (l : List (Nat × β)) (pid : Nat) :
    (l.any (fun p => p.1 == pid)) = true ↔ pid ∈ keys l := by
  simp [keys]

theorem mem_keys_append {β : Type} (l l' : List (Nat × β)) (p : Nat) :
    p ∈ keys (l ++ l') ↔ p ∈ keys l ∨ p ∈ keys l' := by
  simp [keys]

theorem mem_keys_cons {β : Type} (l : List (Nat × β)) (p q : Nat) (b : β) :
    p ∈ keys ((q, b) :: l) ↔ p = q ∨ p ∈ keys l := by
  simp [keys]

/-- the glue invariant -/
structure Glue {σ : Type} (c : Loop σ) : Prop where
  kids_iff : ∀ p, p ∈ keys c.kids ↔ (p ∈ keys c.alive ∨ p ∈ keys c.inflight)
  disj : ∀ p, p ∈ keys c.alive → p ∉ keys c.inflight
  fresh : ∀ p, p ∈ keys c.kids → p < c.nextPid

/-- handleAction changes kids/alive/nextPid consistently and never touches inflight/noticed/status -/
theorem handleAction_glue {σ : Type} (M : Machine σ) (fuel : Nat) :
    ∀ (bits : List Bool) (c : Loop σ) (a : Action), Glue c →
      Glue (handleAction M fuel bits c a).1 ∧
      (handleAction M fuel bits c a).1.inflight = c.inflight ∧
      (handleAction M fuel bits c a).1.noticed = c.noticed ∧
      (handleAction M fuel bits c a).1.status = c.status ∧
      c.nextPid ≤ (handleAction M fuel bits c a).1.nextPid ∧
      (∀ p, p ∈ keys c.kids → p ∈ keys (handleAction M fuel bits c a).1.kids) := by
  induction fuel with
  | zero => intro bits c a h; simp [handleAction]; exact h
  | succ n ih =>
    intro bits c a h
    unfold handleAction
    cases ha : a.act with
    | nothing => simp; exact h
    | terminate => simp; exact h
    | terminateChildren =>
      simp only
      split
      · simp; exact h
      · simp; exact ⟨h.kids_iff, h.disj, h.fresh⟩
    | start =>
      simp only
      split
      · simp; exact h
      · -- spawned
        have hg : Glue ({ c with nextPid := c.nextPid + 1, alive := (c.nextPid, a.spec.name) :: c.alive,
                                 kids := (c.nextPid, a.spec.name) :: c.kids,
                                 m := (M.childStarted c.m a.spec c.nextPid).1 } : Loop σ) := by
          constructor
          · intro p
            have := h.kids_iff p
            simp [keys] at this ⊢
            constructor
            · rintro (rfl | hx)
              · exact Or.inl (Or.inl rfl)
              · rcases this.mp hx with h1 | h1
                · exact Or.inl (Or.inr h1)
                · exact Or.inr h1
            · rintro ((rfl | h1) | h1)
              · exact Or.inl rfl
              · exact Or.inr (this.mpr (Or.inl h1))
              · exact Or.inr (this.mpr (Or.inr h1))
          · intro p hp hq
            simp [keys] at hp
            rcases hp with rfl | hp
            · have h1 : c.nextPid ∈ keys c.kids := (h.kids_iff _).mpr (Or.inr hq)
              have := h.fresh _ h1
              omega
            · exact h.disj p (by simpa [keys] using hp) hq
          · intro p hp
            simp [keys] at hp
            rcases hp with rfl | hp
            · simp
            · have := h.fresh p (by simpa [keys] using hp)
              simp; omega
        cases hr : (M.childStarted c.m a.spec c.nextPid).2 with
        | ok a' =>
          simp only
          have := ih bits.tail _ a' hg
          refine ⟨this.1, this.2.1, this.2.2.1, this.2.2.2.1, ?_, ?_⟩
          · have := this.2.2.2.2.1; simp at this; omega
          · intro p hp
            apply this.2.2.2.2.2
            simp [keys] at hp ⊢
            exact Or.inr hp
        | err e =>
          simp only
          refine ⟨hg, trivial, trivial, trivial, by simp, ?_⟩
          intro p hp; simp [keys] at hp ⊢; exact Or.inr hp
        | panic =>
          simp only
          refine ⟨hg, trivial, trivial, trivial, by simp, ?_⟩
          intro p hp; simp [keys] at hp ⊢; exact Or.inr hp


theorem finish_fields {σ : Type} (fromApi : Bool) (r : Loop σ × HRes) :
    (finish fromApi r).kids = r.1.kids ∧ (finish fromApi r).alive = r.1.alive ∧ (finish fromApi r).inflight = r.1.inflight ∧
    (finish fromApi r).noticed = r.1.noticed ∧ (finish fromApi r).nextPid = r.1.nextPid ∧ (finish fromApi r).m = r.1.m ∧
    (finish fromApi r).exitsSent = r.1.exitsSent := by
  unfold finish
  cases r.2 with
  | ret e => cases e <;> simp <;> split <;> simp
  | spawnErr => simp; split <;> simp
  | panic => simp
  | outOfFuel => simp

theorem glue_of_fields {σ : Type} {c c' : Loop σ} (h : Glue c) (h1 : c'.kids = c.kids) (h2 : c'.alive = c.alive)
    (h3 : c'.inflight = c.inflight) (h4 : c.nextPid ≤ c'.nextPid) : Glue c' := by
  constructor
  · intro p; rw [h1, h2, h3]; exact h.kids_iff p
  · intro p; rw [h2, h3]; exact h.disj p
  · intro p; rw [h1]; intro hp; have := h.fresh p hp; omega

theorem afterCall_glue {σ : Type} (M : Machine σ) (fuel : Nat) (fromApi : Bool) (bits : List Bool) (c : Loop σ)
    (r : σ × Res) (h : Glue c) :
    Glue (afterCall M fuel fromApi bits c r) ∧
    (afterCall M fuel fromApi bits c r).inflight = c.inflight ∧
    (afterCall M fuel fromApi bits c r).noticed = c.noticed ∧
    c.nextPid ≤ (afterCall M fuel fromApi bits c r).nextPid ∧
    (∀ p, p ∈ keys c.kids → p ∈ keys (afterCall M fuel fromApi bits c r).kids) := by
  unfold afterCall
  cases hr : r.2 with
  | ok a =>
    simp only
    have hg : Glue ({ c with m := r.1 } : Loop σ) := glue_of_fields h rfl rfl rfl (Nat.le_refl _)
    have := handleAction_glue M fuel bits { c with m := r.1 } a hg
    have hf := finish_fields fromApi (handleAction M fuel bits { c with m := r.1 } a)
    refine ⟨glue_of_fields this.1 hf.1 hf.2.1 hf.2.2.1 (by rw [hf.2.2.2.2.1]; exact Nat.le_refl _), ?_, ?_, ?_, ?_⟩
    · rw [hf.2.2.1]; exact this.2.1
    · rw [hf.2.2.2.1]; exact this.2.2.1
    · rw [hf.2.2.2.2.1]; exact this.2.2.2.2.1
    · intro p hp; rw [hf.1]; exact this.2.2.2.2.2 p hp
  | err e =>
    simp only
    exact ⟨glue_of_fields h rfl rfl rfl (Nat.le_refl _), trivial, trivial, Nat.le_refl _, fun p hp => hp⟩
  | panic =>
    simp only
    exact ⟨glue_of_fields h rfl rfl rfl (Nat.le_refl _), trivial, trivial, Nat.le_refl _, fun p hp => hp⟩

theorem lookupReason_mem (pid : Nat) (l : List (Nat × Reason)) (r : Reason) (h : lookupReason pid l = some r) :
    (pid, r) ∈ l := by
  induction l with
  | nil => simp [lookupReason] at h
  | cons x t ih =>
    obtain ⟨p, q⟩ := x
    simp only [lookupReason] at h
    split at h
    · simp at h; subst h; simp [*]
    · simp [ih h]

theorem deliver_pre_glue {σ : Type} (c : Loop σ) (pid : Nat) (r : Reason) (m' : σ) (h : Glue c)
    (hr : lookupReason pid c.inflight = some r) :
    Glue ({ c with inflight := c.inflight.filter (fun p => p.1 ≠ pid), kids := c.kids.filter (fun p => p.1 ≠ pid),
                   noticed := pid :: c.noticed, m := m' } : Loop σ) := by
  have hin := lookupReason_mem pid c.inflight r hr
  have hpi : pid ∈ keys c.inflight := by simp [keys]; exact ⟨r, hin⟩
  constructor
  · intro p
    have := h.kids_iff p
    simp only [mem_keys_filter_ne]
    constructor
    · rintro ⟨hk, hne⟩
      rcases this.mp hk with h1 | h1
      · exact Or.inl h1
      · exact Or.inr ⟨h1, hne⟩
    · rintro (h1 | ⟨h1, hne⟩)
      · refine ⟨this.mpr (Or.inl h1), ?_⟩
        intro hpe
        rw [hpe] at h1
        exact h.disj _ h1 hpi
      · exact ⟨this.mpr (Or.inr h1), hne⟩
  · intro p hp hq
    simp only [mem_keys_filter_ne] at hq
    exact h.disj p hp hq.1
  · intro p hp
    simp only [mem_keys_filter_ne] at hp
    exact h.fresh p hp.1

/-- every step of the closed system preserves the glue invariant, for every state machine -/
theorem step_glue {σ : Type} (M : Machine σ) (fuel : Nat) (c c' : Loop σ) (l : Label)
    (h : Glue c) (hs : step M fuel c l = some c') : Glue c' := by
  cases l with
  | die pid r =>
    simp only [step] at hs
    split at hs; · simp at hs
    split at hs
    · rename_i hst hal
      have hpa : pid ∈ keys c.alive := (any_keys _ _).mp hal
      simp only [Option.some.injEq] at hs; subst hs
      constructor
      · intro p
        have := h.kids_iff p
        simp only [mem_keys_filter_ne, mem_keys_append, mem_keys_cons]
        have e : p ∈ keys ([] : List (Nat × Reason)) ↔ False := by simp [keys]
        rw [e]
        constructor
        · intro hx
          rcases this.mp hx with h1 | h1
          · by_cases hp : p = pid
            · exact Or.inr (Or.inr (Or.inl hp))
            · exact Or.inl ⟨h1, hp⟩
          · exact Or.inr (Or.inl h1)
        · rintro (⟨h1, _⟩ | h1 | h1 | h1)
          · exact this.mpr (Or.inl h1)
          · exact this.mpr (Or.inr h1)
          · rw [h1]; exact (h.kids_iff pid).mpr (Or.inl hpa)
          · exact h1.elim
      · intro p hp hq
        simp only [mem_keys_filter_ne, mem_keys_append, mem_keys_cons] at hp hq
        rcases hq with hq | hq | hq
        · exact h.disj p hp.1 hq
        · exact hp.2 hq
        · simp [keys] at hq
      · exact h.fresh
    · simp at hs
  | deliver pid now bits =>
    simp only [step] at hs
    split at hs; · simp at hs
    split at hs; · simp at hs
    rename_i hst r hr
    simp only [Option.some.injEq] at hs; subst hs
    have hin := lookupReason_mem pid c.inflight r hr
    have hpi : pid ∈ keys c.inflight := by simp [keys]; exact ⟨r, hin⟩
    apply (afterCall_glue M fuel false bits _ _ _).1
    constructor
    · intro p
      have := h.kids_iff p
      simp only [mem_keys_filter_ne]
      constructor
      · rintro ⟨hk, hne⟩
        rcases this.mp hk with h1 | h1
        · exact Or.inl h1
        · exact Or.inr ⟨h1, hne⟩
      · rintro (h1 | ⟨h1, hne⟩)
        · refine ⟨this.mpr (Or.inl h1), ?_⟩
          intro hpe
          rw [hpe] at h1
          exact h.disj _ h1 hpi
        · exact ⟨this.mpr (Or.inr h1), hne⟩
    · intro p hp hq
      simp only [mem_keys_filter_ne] at hq
      exact h.disj p hp hq.1
    · intro p hp
      simp only [mem_keys_filter_ne] at hp
      exact h.fresh p hp.1
  | foreign r now bits =>
    simp only [step] at hs
    split at hs; · simp at hs
    simp only [Option.some.injEq] at hs; subst hs
    apply (afterCall_glue M fuel false bits _ _ _).1
    exact glue_of_fields h rfl rfl rfl (Nat.le_succ _)
  | startChild name args bits =>
    simp only [step] at hs
    split at hs; · simp at hs
    simp only [Option.some.injEq] at hs; subst hs
    exact (afterCall_glue M fuel true bits _ _ h).1
  | addChild name sig bits =>
    simp only [step] at hs
    split at hs; · simp at hs
    simp only [Option.some.injEq] at hs; subst hs
    exact (afterCall_glue M fuel true bits _ _ h).1
  | enable name bits =>
    simp only [step] at hs
    split at hs; · simp at hs
    simp only [Option.some.injEq] at hs; subst hs
    exact (afterCall_glue M fuel true bits _ _ h).1
  | disable name =>
    simp only [step] at hs
    split at hs; · simp at hs
    simp only [Option.some.injEq] at hs; subst hs
    exact (afterCall_glue M fuel true [] _ _ h).1


/-! ### T7: every child exit is handed to the state machine at most once -/

/-- a pid handed to `childTerminated` is no longer in `Supervisor.children` (hence neither running nor with
an unhandled exit), it is handed over only once, and pids are never reused -/
structure Noticed {σ : Type} (c : Loop σ) : Prop where
  nodup : c.noticed.Nodup
  gone : ∀ p, p ∈ c.noticed → p ∉ keys c.kids ∧ p < c.nextPid

theorem handleAction_kids_new {σ : Type} (M : Machine σ) (fuel : Nat) :
    ∀ (bits : List Bool) (c : Loop σ) (a : Action) (p : Nat),
      p ∈ keys (handleAction M fuel bits c a).1.kids → p ∈ keys c.kids ∨ c.nextPid ≤ p := by
  induction fuel with
  | zero => intro bits c a p h; simp [handleAction] at h; exact Or.inl (by simpa using h)
  | succ n ih =>
    intro bits c a p h
    rw [handleAction] at h
    cases ha : a.act with
    | nothing => simp [ha] at h; exact Or.inl (by simpa using h)
    | terminate => simp [ha] at h; exact Or.inl (by simpa using h)
    | terminateChildren =>
      simp only [ha] at h
      split at h <;> exact Or.inl h
    | start =>
      simp only [ha] at h
      split at h
      · exact Or.inl h
      · cases hr : (M.childStarted c.m a.spec c.nextPid).2 with
        | ok a' =>
          simp only [hr] at h
          rcases ih _ _ _ p h with h1 | h1
          · rw [mem_keys_cons] at h1
            rcases h1 with rfl | h1
            · exact Or.inr (Nat.le_refl _)
            · exact Or.inl h1
          · simp at h1; exact Or.inr (by omega)
        | err e =>
          simp only [hr] at h
          rw [mem_keys_cons] at h
          rcases h with rfl | h
          · exact Or.inr (Nat.le_refl _)
          · exact Or.inl h
        | panic =>
          simp only [hr] at h
          rw [mem_keys_cons] at h
          rcases h with rfl | h
          · exact Or.inr (Nat.le_refl _)
          · exact Or.inl h

theorem afterCall_noticed {σ : Type} (M : Machine σ) (fuel : Nat) (fromApi : Bool) (bits : List Bool) (c : Loop σ)
    (r : σ × Res) (hg : Glue c) (h : Noticed c) : Noticed (afterCall M fuel fromApi bits c r) := by
  have hac := afterCall_glue M fuel fromApi bits c r hg
  constructor
  · rw [hac.2.2.1]; exact h.nodup
  · intro p hp
    rw [hac.2.2.1] at hp
    have ⟨h1, h2⟩ := h.gone p hp
    refine ⟨?_, by have := hac.2.2.2.1; omega⟩
    intro hk
    -- kids of the result: old kids or fresh pids ≥ nextPid
    unfold afterCall at hk
    cases hr : r.2 with
    | ok a =>
      simp only [hr] at hk
      have hff := finish_fields fromApi (handleAction M fuel bits { c with m := r.1 } a)
      rw [hff.1] at hk
      rcases handleAction_kids_new M fuel bits { c with m := r.1 } a p hk with h3 | h3
      · exact h1 h3
      · simp at h3; omega
    | err e => simp only [hr] at hk; exact h1 hk
    | panic => simp only [hr] at hk; exact h1 hk

theorem step_noticed {σ : Type} (M : Machine σ) (fuel : Nat) (c c' : Loop σ) (l : Label)
    (hg : Glue c) (h : Noticed c) (hs : step M fuel c l = some c') : Noticed c' := by
  cases l with
  | die pid r =>
    simp only [step] at hs
    split at hs; · simp at hs
    split at hs
    · simp only [Option.some.injEq] at hs; subst hs; exact ⟨h.nodup, h.gone⟩
    · simp at hs
  | deliver pid now bits =>
    simp only [step] at hs
    split at hs; · simp at hs
    split at hs; · simp at hs
    rename_i hst _ r hr
    simp only [Option.some.injEq] at hs; subst hs
    have hin := lookupReason_mem pid c.inflight r hr
    have hpk : pid ∈ keys c.kids := (hg.kids_iff pid).mpr (Or.inr (by simp [keys]; exact ⟨r, hin⟩))
    apply afterCall_noticed M fuel false bits _ _ (deliver_pre_glue c pid r c.m hg hr)
    constructor
    · simp only [List.nodup_cons]
      exact ⟨fun hp => (h.gone pid hp).1 hpk, h.nodup⟩
    · intro p hp
      simp only [List.mem_cons] at hp
      rcases hp with rfl | hp
      · exact ⟨by simp only [mem_keys_filter_ne]; intro hx; exact hx.2 rfl, hg.fresh _ hpk⟩
      · have ⟨h1, h2⟩ := h.gone p hp
        exact ⟨by simp only [mem_keys_filter_ne]; intro hx; exact h1 hx.1, h2⟩
  | foreign r now bits =>
    simp only [step] at hs
    split at hs; · simp at hs
    simp only [Option.some.injEq] at hs; subst hs
    have hg' : Glue ({ c with nextPid := c.nextPid + 1 } : Loop σ) := glue_of_fields hg rfl rfl rfl (Nat.le_succ _)
    have hn' : Noticed ({ c with nextPid := c.nextPid + 1 } : Loop σ) :=
      ⟨h.nodup, fun p hp => ⟨(h.gone p hp).1, by have := (h.gone p hp).2; simp; omega⟩⟩
    exact afterCall_noticed M fuel false bits _ _ hg' hn'
  | startChild name args bits =>
    simp only [step] at hs
    split at hs; · simp at hs
    simp only [Option.some.injEq] at hs; subst hs
    exact afterCall_noticed M fuel true bits _ _ hg h
  | addChild name sig bits =>
    simp only [step] at hs
    split at hs; · simp at hs
    simp only [Option.some.injEq] at hs; subst hs
    exact afterCall_noticed M fuel true bits _ _ hg h
  | enable name bits =>
    simp only [step] at hs
    split at hs; · simp at hs
    simp only [Option.some.injEq] at hs; subst hs
    exact afterCall_noticed M fuel true bits _ _ hg h
  | disable name =>
    simp only [step] at hs
    split at hs; · simp at hs
    simp only [Option.some.injEq] at hs; subst hs
    exact afterCall_noticed M fuel true [] _ _ hg h

end ErgoVerif.Sup

/-
C20 — Cron: jobs run exactly at the minutes their spec denotes.

Model: ErgoVerif.Model.Cron (node/cron_parse.go), ErgoVerif.Model.CronSched (node/cron.go).
-/
import ErgoVerif.Lemmas.CronSpec
namespace ErgoVerif.Props.C20
open ErgoVerif.Cron ErgoVerif.Generated.Cron

/-- For every valid spec and every well-formed civil time the code's matcher on the compiled bit masks
    (cronSpecMask.IsRunAt ∘ cronParseSpecField) equals the crontab denotation: lists, ranges, steps, `L`, `wL`, `w#n`,
    and day-of-month OR day-of-week when both are restricted. -/
theorem C20_mask_eq (s : Spec) (hs : s.valid = true) (c : Civil) (hc : c.wf) :
    specIsRunAt (compileSpec s) c = s.denote c :=
  specIsRunAt_eq_denote s hs c hc

-- non-vacuity: a valid spec with every kind of option, a well-formed time, both outcomes
example : (⟨.list [.starStep 15, .num 59], .list [.rangeStep 0 23 2], .list [.num 1, .last], .star,
           .list [.nth 1 2, .lastW 7, .range 2 3]⟩ : Spec).valid = true := by decide
example : (⟨2026, 3, 31, 22, 45, 2⟩ : Civil).wf := by decide
example : specIsRunAt (compileSpec ⟨.list [.starStep 15], .star, .list [.last], .star, .list [.lastW 7]⟩) ⟨2026, 3, 31, 22, 45, 2⟩ = true := by decide
example : specIsRunAt (compileSpec ⟨.list [.starStep 15], .star, .list [.last], .star, .list [.lastW 7]⟩) ⟨2026, 3, 30, 22, 45, 1⟩ = false := by decide

end ErgoVerif.Props.C20

package main

// K3 on a meta-process: controlled schedules of senders (Send to the meta alias, messages that make the handler
// return an error), the handler goroutine(s) and the goroutine that runs the Start callback (the harness decides
// when Start returns), in lockstep with Model/Meta.lean. Oracles: handlers never overlap each other; Terminate at
// most once; Terminate does not overlap a handler (known finding D22 when Start returns under a running handler).

import (
	"errors"
	"fmt"
	"strings"
	"sync"
	"sync/atomic"
	"time"

	"ergo.services/ergo/gen"
)

type k3metaB struct {
	ctl      *Ctl
	mp       gen.MetaProcess
	inH      int32
	inT      int32
	overlapH int32 // two handlers at once
	overlapT int32 // Terminate while a handler runs
	termByStart atomic.Bool
	startGid uint64
	terms    int32
	handled  int32
	mu       sync.Mutex
}

type k3metaMsg struct {
	ID   int
	Fail bool
}

func (b *k3metaB) Init(m gen.MetaProcess) error {
	b.mp = m
	b.ctl.AddQueue(m)
	return nil
}
func (b *k3metaB) Start() error {
	b.startGid = gid()
	b.ctl.Point("mcb:start")
	return nil
}
func (b *k3metaB) HandleMessage(from gen.PID, message any) error {
	if atomic.AddInt32(&b.inH, 1) > 1 {
		atomic.StoreInt32(&b.overlapH, 1)
	}
	if atomic.LoadInt32(&b.inT) > 0 {
		atomic.StoreInt32(&b.overlapT, 1)
	}
	defer atomic.AddInt32(&b.inH, -1)
	atomic.AddInt32(&b.handled, 1)
	b.ctl.Point("mcb:handle")
	if m, ok := message.(k3metaMsg); ok && m.Fail {
		return errors.New("meta handler error")
	}
	return nil
}
func (b *k3metaB) HandleCall(from gen.PID, ref gen.Ref, request any) (any, error) { return nil, nil }
func (b *k3metaB) Terminate(reason error) {
	atomic.AddInt32(&b.inT, 1)
	if atomic.LoadInt32(&b.inH) > 0 {
		atomic.StoreInt32(&b.overlapT, 1)
	}
	if gid() == b.startGid {
		b.termByStart.Store(true)
	}
	atomic.AddInt32(&b.terms, 1)
	b.ctl.Point("mcb:terminate")
	atomic.AddInt32(&b.inT, -1)
}
func (b *k3metaB) HandleInspect(from gen.PID, item ...string) map[string]string { return nil }

var metaCensus = map[string]int{"mcb:start": 0, "meta:swapTermStart": 1, "meta:cas": 2, "meta:go": 3, "meta:runner": 4,
	"mcb:handle": 5, "meta:casSleep": 6, "meta:recheck": 7, "meta:casRun": 8, "meta:swapTermHandler": 9, "mcb:terminate": 10}

func metaLabels(from, to string, pops int, startThread bool) ([]string, bool) {
	var ls []string
	rep := func() {
		for i := 0; i < pops; i++ {
			ls = append(ls, "pop")
		}
	}
	tail := func() bool {
		switch to {
		case "mcb:handle":
			return true
		case "meta:casSleep":
			ls = append(ls, "loopEnd")
		case "meta:swapTermHandler":
			ls = append(ls, "retReason")
		default:
			return false
		}
		return true
	}
	switch from {
	case "mcb:start":
		if to == "meta:swapTermStart" {
			return []string{"startRet"}, true
		}
	case "meta:swapTermStart":
		if to == "done" || to == "mcb:terminate" {
			return []string{"swapStart"}, true
		}
	case "meta:cas":
		if to == "meta:go" || to == "done" {
			return []string{"cas"}, true
		}
	case "meta:go":
		if to == "done" {
			return []string{"go"}, true
		}
	case "meta:runner":
		ls = append(ls, "runner")
		rep()
		return ls, tail()
	case "mcb:handle":
		rep()
		return ls, tail()
	case "meta:casSleep":
		// to "mcb:terminate": Start is over and has left the termination to this (handler) goroutine
		if to == "meta:recheck" || to == "done" || to == "mcb:terminate" {
			return []string{"casSleep"}, true
		}
	case "meta:recheck":
		if to == "done" {
			return []string{"recheckEmpty"}, true
		}
		if to == "meta:casRun" {
			return []string{"recheckSome"}, true
		}
	case "meta:casRun":
		ls = append(ls, "casRun")
		if to == "done" {
			return ls, true
		}
		rep()
		return ls, tail()
	case "meta:swapTermHandler":
		if to == "done" || to == "mcb:terminate" {
			return []string{"swapHandler"}, true
		}
	case "mcb:terminate":
		if to == "done" {
			if startThread {
				return []string{"termDoneS"}, true
			}
			return []string{"termDoneH"}, true
		}
	}
	return nil, false
}

type k3metaRun struct {
	ops     []string
	choices []string
	steps   []k3step
	stuck   string
	b       *k3metaB
	trace   []string
}

func runK3Meta(k *K4, owner gen.PID, nsend int, fails []bool, rng *Rng, forced []string) *k3metaRun {
	run := &k3metaRun{}
	ctl := NewCtl("k3-no-process")
	defer ctl.Close()
	b := &k3metaB{ctl: ctl}
	run.b = b
	ctl.On()
	var alias gen.Alias
	var serr error
	k.Exec(owner, func(p *Puppet) { alias, serr = p.SpawnMeta(b, gen.MetaOptions{}) })
	if serr != nil {
		run.stuck = "spawnmeta: " + serr.Error()
		return run
	}
	if !waitUntil(2*time.Second, func() bool { return len(ctl.Parked()) == 2 }) {
		run.stuck = "start/handle goroutines did not park"
		ctl.ReleaseAll()
		return run
	}
	ctl.Drain()
	startName := ""
	for _, t := range ctl.Parked() {
		if t.label == "mcb:start" {
			startName = t.name
		}
	}
	mailLen := func() (int, bool) {
		info, err := k.Node.MetaInfo(alias)
		if err != nil {
			return 0, false
		}
		return int(info.MailboxQueues.Main + info.MailboxQueues.System), true
	}
	record := func(l []string, ok bool, th, from, to string) {
		if !ok {
			l = []string{"unmapped:" + from + "->" + to}
		}
		var st k3step
		st.labels = l
		info, err := k.Node.MetaInfo(alias)
		if err != nil {
			st.st = 4
			st.mail = -1
		} else {
			st.st = int(info.State)
			st.mail = int(info.MailboxQueues.Main + info.MailboxQueues.System)
		}
		for lab, n := range ctl.Census() {
			if i, ok := metaCensus[lab]; ok {
				st.census[i] += n
			}
		}
		run.steps = append(run.steps, st)
	}
	record([]string{"storeSleep"}, true, "A", "spawn", "mcb:start")
	pending := nsend
	sent := 0
	pick := func(n int) int {
		if n <= 0 {
			return 0
		}
		return rng.Intn(n)
	}
	fi := 0
	for n := 0; n < 300; n++ {
		pk := ctl.Parked()
		if len(pk) == 0 && pending == 0 {
			break
		}
		var choice string
		if fi < len(forced) {
			choice = forced[fi]
			fi++
		} else if len(forced) > 0 {
			break
		} else if pending > 0 && (len(pk) == 0 || rng.Chance(1, 4)) {
			choice = "send"
		} else if len(pk) > 0 {
			// the Start goroutine is released rarely, so that most schedules have a long-lived meta-process
			t := pk[pick(len(pk))]
			if t.name == startName && t.label == "mcb:start" && !rng.Chance(1, 6) && len(pk) > 1 {
				continue
			}
			choice = "step:" + t.name
		} else {
			break
		}
		run.choices = append(run.choices, choice)
		if choice == "send" {
			id := sent
			fail := id < len(fails) && fails[id]
			sent++
			pending--
			name := fmt.Sprintf("S%d", id)
			to, err := ctl.Start(name, func() { k.Node.Send(alias, k3metaMsg{ID: id, Fail: fail}) })
			if err != nil {
				run.stuck = err.Error()
				break
			}
			var l []string
			if to == "meta:cas" {
				l = []string{"newSender", "push"}
			}
			record(l, to == "meta:cas" || to == "done", name, "start", to)
			continue
		}
		th := choice[5:]
		if strings.HasPrefix(choice, "step@") {
			// forced schedules name the program point, not the goroutine
			th = ""
			for _, t := range ctl.Parked() {
				if t.label == choice[5:] && !strings.HasPrefix(t.name, "S") {
					th = t.name
					break
				}
			}
		}
		t := ctl.Find(th)
		if t == nil || !t.parked {
			run.stuck = "not parked: " + th
			break
		}
		before, okb := mailLen()
		isStart := th == startName
		var from, to string
		var err error
		if t.anon && (t.label == "meta:cas" || t.label == "meta:go") {
			// the goroutine of `go m.handle()` ends silently
			from, to, _, err = ctl.StepAssumeDone(th, 30*time.Millisecond)
		} else {
			from, to, _, err = ctl.Step(th)
		}
		if err != nil {
			run.stuck = err.Error()
			break
		}
		pops := 0
		if after, oka := mailLen(); okb && oka && (strings.HasPrefix(from, "meta:runner") || from == "mcb:handle" || from == "meta:casRun") {
			pops = before - after
			if pops < 0 {
				pops = 0
			}
		} else if okb && !oka && (from == "meta:runner" || from == "mcb:handle" || from == "meta:casRun") && to == "meta:swapTermHandler" {
			pops = 0
		}
		l, ok := metaLabels(from, to, pops, isStart)
		record(l, ok, th, from, to)
	}
	if len(ctl.Parked()) > 0 && run.stuck == "" && len(forced) == 0 {
		run.stuck = "step limit"
	}
	run.trace = append([]string(nil), ctl.Trace...)
	ctl.ReleaseAll()
	time.Sleep(300 * time.Microsecond)
	return run
}

func (s *k3step) expectMeta() string {
	var sb strings.Builder
	fmt.Fprintf(&sb, "ok st=%d mail=%d cen=", s.st, s.mail)
	for i := 0; i < 11; i++ {
		if i > 0 {
			sb.WriteByte(',')
		}
		fmt.Fprintf(&sb, "%d", s.census[i])
	}
	return sb.String()
}

// runMetaK3 is shared by C01 and C05.
func runMetaK3(c *Ctx, prop string) {
	r := c.R
	k, err := NewK4("k3m")
	if err != nil {
		r.Disagree("k3meta.node", err.Error(), nil)
		return
	}
	defer k.Stop()
	_, owner, _ := k.Spawn("owner", false, gen.ProcessOptions{}, "")
	var runs []*k3metaRun
	// D22 witness first: a handler is inside HandleMessage, then Start returns and the start goroutine terminates
	w := runK3Meta(k, owner, 1, []bool{false}, c.Rng, []string{"send", "step:S0", "step:S0", "step@meta:runner", "step@mcb:start", "step@meta:swapTermStart"})
	runs = append(runs, w)
	n := c.N(400, 15000)
	for i := 0; i < n; i++ {
		ns := 1 + c.Rng.Intn(4)
		fails := make([]bool, ns)
		for j := range fails {
			fails[j] = c.Rng.Chance(1, 6)
		}
		runs = append(runs, runK3Meta(k, owner, ns, fails, c.Rng, nil))
	}
	var lines []string
	for _, run := range runs {
		lines = append(lines, "reset")
		for _, s := range run.steps {
			lab := "-"
			if len(s.labels) > 0 {
				lab = strings.Join(s.labels, ",")
			}
			lines = append(lines, "step "+lab)
		}
	}
	outs, err := Model("meta", lines)
	if err != nil {
		r.Disagree("meta.driver", err.Error(), nil)
		return
	}
	pos := 0
	for ri, run := range runs {
		pos++
		bad := ""
		for si := range run.steps {
			got := outs[pos]
			pos++
			want := run.steps[si].expectMeta()
			if run.steps[si].mail < 0 {
				// alias gone: mailbox length not observable, compare state and census only
				gi := strings.Index(got, " mail=")
				gj := strings.Index(got, " cen=")
				wi := strings.Index(want, " mail=")
				wj := strings.Index(want, " cen=")
				if gi > 0 && gj > 0 && wi > 0 && wj > 0 {
					got = got[:gi] + got[gj:]
					want = want[:wi] + want[wj:]
				}
			}
			if bad == "" && got != want {
				bad = fmt.Sprintf("step %d labels %v: model %q, implementation %q", si, run.steps[si].labels, got, want)
			}
		}
		rp := map[string]interface{}{"choices": run.choices, "trace": tail(run.trace, 40)}
		r.Case("meta|"+strings.Join(run.choices, " "), len(run.steps) >= 8)
		r.Count("meta.schedules")
		if run.stuck != "" {
			r.Count("meta.inconclusive")
		}
		if ri > 0 && bad != "" && run.stuck == "" {
			r.Disagree("K3 Model.Meta ~ meta.handle/start lockstep", bad, rp)
		}
		b := run.b
		if b == nil {
			continue
		}
		switch prop {
		case "C01":
			if atomic.LoadInt32(&b.overlapH) != 0 {
				r.Violation("C01/meta-handlers-overlap", "two mailbox handlers of one meta-process executed at the same time", rp)
			}
			if atomic.LoadInt32(&b.overlapT) != 0 {
				sig := "C01/meta-terminate-overlaps-handler"
				if b.termByStart.Load() {
					sig = "C01/D22-meta-terminate-overlaps-handler"
				}
				r.Violation(sig, "Terminate of a meta-process ran while HandleMessage was executing", rp)
			}
		case "C05":
			if atomic.LoadInt32(&b.terms) > 1 {
				r.Violation("C05/meta-terminate-twice", fmt.Sprintf("Terminate of a meta-process ran %d times", b.terms), rp)
			}
			if atomic.LoadInt32(&b.overlapT) != 0 {
				sig := "C05/meta-terminate-not-last"
				if b.termByStart.Load() {
					sig = "C05/D22-meta-terminate-not-last"
				}
				r.Violation(sig, "Terminate of a meta-process started before its last handler had finished", rp)
			}
		}
	}
}

import ErgoVerif.Drive.Util
import ErgoVerif.Model.Fallback
namespace ErgoVerif.Drive.Fallback
open ErgoVerif.Drive ErgoVerif.Fallback

def b (s : String) : Bool := s = "1"

/-- `route <alive> <full> <fbEnable> <fbSelf>` → outcome class; `timer <ops: f|c chars>` → sent / number of true cancels -/
def line (s : String) : String :=
  match words s with
  | ["route", a, f, e, self] =>
    let t : Target := { pid := 7, name := "t", alive := b a, full := b f, fbEnable := b e,
                        fbName := if b self then "t" else "fb", fbTag := "tag" }
    match routeSend t (0 : Nat) with
    | .delivered _ => "delivered"
    | .errTerminated => "errTerminated"
    | .errFull => "errFull"
    | .fallback _ _ _ _ => "fallback"
  | ["timer", ops] =>
    let os := ops.toList.filterMap fun c => if c = 'f' then some TOp.fire else if c = 'c' then some TOp.cancel else none
    let t := os.foldl Timer.step Timer.init
    s!"sent={t.sent} trues={(t.cancelResults.filter (· = true)).length}"
  | _ => "bad-op"

def main (h : IO.FS.Stream) : IO Unit := loopPure h line

end ErgoVerif.Drive.Fallback

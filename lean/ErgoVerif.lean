import ErgoVerif.Common

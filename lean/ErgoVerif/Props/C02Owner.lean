import ErgoVerif.Model.MsgOwner
import ErgoVerif.Generated.Owner
/-!
# C02 — "handled exactly once", the part that rests on the ownership of mailbox message objects

The mailbox message objects are recycled through one node-wide pool. If an object is put back twice, two later senders
get the same object: the second overwrites the message of the first while it is still queued (one accepted message is
lost, another handled twice), and the second release wipes an object that sits in a mailbox.

`C02_owner` : when every release site resets the loop variable, in every reachable state of every interleaving of
senders and the loop, the pool holds no object twice and none that is still queued or being handled.
`C02_owner_without_reset` : one site that does not reset breaks it (a witness).
`C02_owner_code` : for the code as it is (regenerated list of release sites).
-/
namespace ErgoVerif.Props.C02Owner
open ErgoVerif.MsgOwner

structure Inv (s : St) : Prop where
  fnd : s.free.Nodup
  qnd : s.queued.Nodup
  fq : ∀ o ∈ s.free, o ∉ s.queued
  fc : ∀ o ∈ s.free, s.cur ≠ some o
  qc : ∀ o ∈ s.queued, s.cur ≠ some o
  fb : ∀ o ∈ s.free, o < s.fresh
  qb : ∀ o ∈ s.queued, o < s.fresh
  cb : ∀ o, s.cur = some o → o < s.fresh

theorem inv_init : Inv init := by
  constructor <;> simp [init]

theorem step_inv (s : St) (e : Ev) (h : Inv s) : Inv (step true s e) := by
  obtain ⟨fnd, qnd, fq, fc, qc, fb, qb, cb⟩ := h
  cases e with
  | take =>
    unfold step
    cases hf : s.free with
    | nil =>
      simp only
      refine ⟨by simp, ?_, by simp, by simp, ?_, by simp, ?_, ?_⟩
      · rw [List.nodup_append]
        refine ⟨qnd, by simp, ?_⟩
        intro a ha b hb
        simp at hb; subst hb
        exact Nat.ne_of_lt (qb a ha)
      · intro o ho hc
        rcases List.mem_append.mp ho with ho | ho
        · exact qc o ho hc
        · simp at ho; subst ho; exact Nat.lt_irrefl _ (cb _ hc)
      · intro o ho
        rcases List.mem_append.mp ho with ho | ho
        · exact Nat.lt_succ_of_lt (qb o ho)
        · simp at ho; subst ho; exact Nat.lt_succ_self _
      · intro o ho; exact Nat.lt_succ_of_lt (cb o ho)
    | cons o rest =>
      simp only
      rw [hf] at fnd fq fc fb
      have ho : o ∉ rest := (List.nodup_cons.mp fnd).1
      have hr : rest.Nodup := (List.nodup_cons.mp fnd).2
      refine ⟨hr, ?_, ?_, ?_, ?_, ?_, ?_, cb⟩
      · rw [List.nodup_append]
        refine ⟨qnd, by simp, ?_⟩
        intro a ha b hb
        simp at hb; subst hb
        intro hab; subst hab
        exact fq a (by simp) ha
      · intro a ha hq
        rcases List.mem_append.mp hq with hq | hq
        · exact fq a (by simp [ha]) hq
        · simp at hq; subst hq; exact ho ha
      · intro a ha; exact fc a (by simp [ha])
      · intro a ha hc
        rcases List.mem_append.mp ha with ha | ha
        · exact qc a ha hc
        · simp at ha; subst ha; exact fc a (by simp) hc
      · intro a ha; exact fb a (by simp [ha])
      · intro a ha
        rcases List.mem_append.mp ha with ha | ha
        · exact qb a ha
        · simp at ha; subst ha; exact fb a (by simp)
  | release =>
    unfold step
    cases hc : s.cur with
    | none => simp only; exact ⟨fnd, qnd, fq, fc, qc, fb, qb, cb⟩
    | some c =>
      simp only [if_true]
      refine ⟨?_, qnd, ?_, by simp, by simp, ?_, qb, by simp⟩
      · rw [List.nodup_cons]
        exact ⟨fun hm => fc c hm hc, fnd⟩
      · intro a ha hq
        rcases List.mem_cons.mp ha with ha | ha
        · subst ha; exact qc a hq hc
        · exact fq a ha hq
      · intro a ha
        rcases List.mem_cons.mp ha with ha | ha
        · subst ha; exact cb a hc
        · exact fb a ha
  | pop =>
    unfold step
    cases hq : s.queued with
    | nil => simp only; exact ⟨fnd, qnd, fq, fc, qc, fb, qb, cb⟩
    | cons o rest =>
      simp only
      rw [hq] at qnd fq qc qb
      refine ⟨fnd, (List.nodup_cons.mp qnd).2, ?_, ?_, ?_, fb, ?_, ?_⟩
      · intro a ha hm; exact fq a ha (by simp [hm])
      · intro a ha hc
        simp at hc; subst hc
        exact fq _ ha (by simp)
      · intro a ha hc
        simp at hc; subst hc
        exact (List.nodup_cons.mp qnd).1 ha
      · intro a ha; exact qb a (by simp [ha])
      · intro a ha; simp at ha; subst ha; exact qb _ (by simp)

theorem run_inv (s : St) (tr : List Ev) (h : Inv s) : Inv (run true s tr) := by
  induction tr generalizing s with
  | nil => exact h
  | cons e es ih => exact ih _ (step_inv s e h)

/-- the flag form: if every release site resets the variable, the pool never holds an object twice and never one that is
    still queued or being handled — for every interleaving of senders and the loop, of any length -/
theorem C02_owner_full (rs : Bool) (hrs : rs = true) (tr : List Ev) : (run rs init tr).exclusive := by
  subst hrs
  have h := run_inv init tr inv_init
  exact ⟨h.fnd, fun o ho => ⟨h.fq o ho, h.fc o ho⟩⟩

/-- a release site that keeps the variable: the same object is put back twice (take, pop, release, release), and the
    next two senders share it -/
theorem C02_owner_without_reset :
    ¬ (run false init [.take, .pop, .release, .release]).exclusive ∧
    (run false init [.take, .pop, .release, .release, .take, .take]).queued = [0, 0] := by
  refine ⟨?_, by decide⟩
  intro h
  have : (run false init [.take, .pop, .release, .release]).free = [0, 0] := by decide
  have h1 := h.1
  rw [this] at h1
  exact absurd h1 (by decide)

/-- every release site of the current source is guarded by `!= nil` on the same variable and resets it -/
def allReset : Bool := ErgoVerif.Gen.Owner.releaseSites.all (fun s => s.guarded && s.reset)

theorem C02_code_shape_release_sites :
    allReset = true ∧ ErgoVerif.Gen.Owner.releaseSites.any (fun s => s.file == "node/meta.go") = true ∧
    ErgoVerif.Gen.Owner.releaseSites.any (fun s => s.file == "act/actor.go") = true := by
  decide

/-- for the code as it is -/
theorem C02_owner (tr : List Ev) : (run allReset init tr).exclusive :=
  C02_owner_full allReset C02_code_shape_release_sites.1 tr

/-! non-vacuity: objects do get recycled in the model -/
example : (run true init [.take, .pop, .take, .release, .pop, .take]).queued = [0] ∧
    (run true init [.take, .pop, .take, .release, .pop, .take]).cur = some 1 := by decide

end ErgoVerif.Props.C02Owner

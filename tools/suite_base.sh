#!/bin/bash
# the pinned suite (guard off) on /repo HEAD; up to 5 runs, union of passes
export GOFLAGS=-mod=mod GOPROXY=off GOSUMDB=off GOTOOLCHAIN=local
W=/var/tmp/seedsuite/w_base; O=/var/tmp/seedsuite/BASE
rm -rf $W; git -C /repo worktree add -q --detach $W HEAD || exit 1
cd $W
go build ./... || { echo build-failed > $O.res; exit 1; }
: > $O.json
for run in 1 2 3 4 5; do
  unshare -rn bash -c "ip link set lo up; go test -mod=mod -json -vet=off -count=1 -timeout 5m ./... 2>/dev/null" >> $O.json
  python3 - $O.json > $O.cmp <<'PY'
import json,sys
b=json.load(open('/root/.vp/BASELINE.json')); stable=set(b['stable_pass'])
passed=set(); failed={}
for line in open(sys.argv[1]):
    if not line.startswith('{'): continue
    try: e=json.loads(line)
    except Exception: continue
    if e.get('Test'):
        k=e['Package']+'::'+e['Test']
        if e.get('Action')=='pass': passed.add(k)
        elif e.get('Action')=='fail': failed[k]=failed.get(k,0)+1
missing=sorted(stable-passed)
print(len(missing))
for m in missing: print("  ",m,"fail" if m in failed else "no-result")
print("failed-at-least-once among stable:", sorted(k for k in failed if k in stable)[:40])
PY
  n=$(head -1 $O.cmp)
  echo "run $run: stable-not-passed-so-far=$n" >> $O.log
  [ "$n" = "0" ] && break
done
echo "BASE head=$(git -C /repo rev-parse --short HEAD) stable-not-passed=$n runs=$run" > $O.res
cd /; git -C /repo worktree remove --force $W

/-
Field level and spec level: IsRunAt on the compiled masks = denotation.
-/
import ErgoVerif.Lemmas.CronMatch
namespace ErgoVerif.Cron
open ErgoVerif.Generated.Cron

theorem special_mem (k : Kind) (items : List Item) (hv : ∀ it ∈ items, it.valid k = true) (c : Civil)
    (m : Nat) (hm : m ∈ items.filterMap (Item.specialMask k)) :
    isAndType m = false ∧ maskKnown m = true ∧ m < 2 ^ 64 := by
  obtain ⟨it, hit, hs⟩ := List.mem_filterMap.mp hm
  have := special_denote k it (hv it hit) c m hs
  exact ⟨this.2.1, this.2.2.1, this.2.2.2⟩

theorem numeric_no_special (k : Kind) (it : Item) (hn : it.isNumeric = true) : it.specialMask k = none := by
  cases it <;> simp [Item.isNumeric] at hn <;> simp [Item.specialMask]

theorem nonnumeric_no_num (k : Kind) (v : Nat) (it : Item) (hn : it.isNumeric = false) : it.numDenote k v = false := by
  cases it <;> simp [Item.isNumeric] at hn <;> simp [Item.numDenote]

/-- day / weekday field (OR list): any option -/
theorem compileField_or (k : Kind) (hk : k.isAnd = false) (items : List Item)
    (hv : ∀ it ∈ items, it.valid k = true) (hne : items ≠ []) (c : Civil) (hc : c.wf) :
    listIsRunAt (compileField k (.list items)) c = items.any (Item.denote k c) := by
  have hL := compileField_list_ne_nil k items hv hne
  have hsp := fun m hm => special_mem k items hv c m hm
  rw [any_split k items hv c]
  simp only [compileField] at hL ⊢
  rw [acc_special k items] at hL ⊢
  split
  · rename_i h
    rw [if_pos h] at hL
    have hall := (acc_bits_empty_iff k items hv).mp h
    rw [listIsRunAt_or c _ hL (fun m hm => (hsp m hm).1)]
    have : items.any (Item.numDenote k (k.value c)) = false := by
      rw [List.any_eq_false]
      intro it hit
      have := List.all_eq_true.mp hall it hit
      simp [nonnumeric_no_num k (k.value c) it (by simpa using this)]
    simp [this]
  · have ht := acc_bits_type k items hv
    have hand := isAndType_of_type k _ ht
    rw [hk] at hand
    rw [listIsRunAt_or c _ (by simp) (by
      intro m hm
      rcases List.mem_cons.mp hm with h | h
      · rw [h]; exact hand
      · exact (hsp m h).1)]
    simp only [List.any_cons]
    rw [maskIsRunAt_bits k _ c ht, acc_bits_testBit k items hv, k.mask_testBit_low (k.value_lt c hc)]
    simp

theorem valid_and_numeric (k : Kind) (hk : k.isAnd = true) (it : Item) (hv : it.valid k = true) : it.isNumeric = true := by
  cases it <;> simp [Item.isNumeric] <;> cases k <;> simp [Item.valid, Kind.isAnd] at hv hk

/-- the single mask a list in a minute / hour / month field compiles to -/
theorem compileField_and_eq (k : Kind) (hk : k.isAnd = true) (items : List Item)
    (hv : ∀ it ∈ items, it.valid k = true) (hne : items ≠ []) :
    compileField k (.list items) = [(items.foldl (compileItem k) ⟨k.mask, []⟩).bits] := by
  simp only [compileField]
  rw [acc_special k items]
  have hsp : items.filterMap (Item.specialMask k) = [] := by
    rw [List.filterMap_eq_nil_iff]
    intro it hit
    exact numeric_no_special k it (valid_and_numeric k hk it (hv it hit))
  rw [hsp]
  split
  · rename_i h
    exfalso
    have hall := (acc_bits_empty_iff k items hv).mp h
    cases items with
    | nil => exact hne rfl
    | cons it rest =>
      have h1 := List.all_eq_true.mp hall it List.mem_cons_self
      have h2 := valid_and_numeric k hk it (hv it List.mem_cons_self)
      simp [h2] at h1
  · rfl

/-- minute / hour / month field (AND masks at the front of the list) -/
theorem compileField_and (k : Kind) (hk : k.isAnd = true) (f : Field) (hv : f.valid k = true) (c : Civil) (hc : c.wf)
    (rest : List Nat) (run : Bool) :
    listLoop c (compileField k f ++ rest) run = (f.denote k c && listLoop c rest run) := by
  cases f with
  | star => simp [compileField, Field.denote]
  | list items =>
    simp only [Field.valid, Bool.and_eq_true, Bool.not_eq_true', List.all_eq_true] at hv
    obtain ⟨hne, hv⟩ := hv
    have hne' : items ≠ [] := by intro h; simp [h] at hne
    rw [compileField_and_eq k hk items hv hne']
    have ht := acc_bits_type k items hv
    have hand := isAndType_of_type k _ ht
    rw [hk] at hand
    simp only [List.singleton_append]
    rw [listLoop_and_cons c _ rest run hand, maskIsRunAt_bits k _ c ht, acc_bits_testBit k items hv,
      k.mask_testBit_low (k.value_lt c hc)]
    simp only [Bool.false_or, Field.denote]
    congr 1
    -- denotation of numeric options = their numeric part
    rw [any_split k items hv c]
    have hsp : items.filterMap (Item.specialMask k) = [] := by
      rw [List.filterMap_eq_nil_iff]
      intro it hit
      exact numeric_no_special k it (valid_and_numeric k hk it (hv it hit))
    simp [hsp]

/-- a day / weekday field: empty list for `*`, otherwise a non-empty OR list with the field's denotation -/
theorem compileField_dayish (k : Kind) (hk : k.isAnd = false) (f : Field) (hv : f.valid k = true) (c : Civil) (hc : c.wf) :
    (f.isStar = true → compileField k f = []) ∧
    (f.isStar = false → compileField k f ≠ [] ∧ listIsRunAt (compileField k f) c = f.denote k c) := by
  cases f with
  | star => simp [compileField, Field.isStar]
  | list items =>
    simp only [Field.valid, Bool.and_eq_true, Bool.not_eq_true', List.all_eq_true] at hv
    obtain ⟨hne, hv⟩ := hv
    have hne' : items ≠ [] := by intro h; simp [h] at hne
    refine ⟨by simp [Field.isStar], fun _ => ⟨compileField_list_ne_nil k items hv hne', ?_⟩⟩
    rw [compileField_or k hk items hv hne' c hc]
    rfl

theorem isStar_denote (k : Kind) (c : Civil) (f : Field) (h : f.isStar = true) : f.denote k c = true := by
  cases f <;> simp [Field.isStar] at h; simp [Field.denote]

/-- the whole spec -/
theorem specIsRunAt_eq_denote (s : Spec) (hs : s.valid = true) (c : Civil) (hc : c.wf) :
    specIsRunAt (compileSpec s) c = s.denote c := by
  simp only [Spec.valid, Bool.and_eq_true] at hs
  obtain ⟨⟨⟨⟨h1, h2⟩, h3⟩, h4⟩, h5⟩ := hs
  have hmhm : listIsRunAt (compileSpec s).minHourMonth c =
      (s.minute.denote .minute c && s.hour.denote .hour c && s.month.denote .month c) := by
    simp only [compileSpec, listIsRunAt]
    rw [List.append_assoc, compileField_and .minute rfl _ h1 c hc, compileField_and .hour rfl _ h2 c hc]
    have := compileField_and .month rfl _ h4 c hc [] true
    rw [List.append_nil] at this
    rw [this]
    simp [listLoop, Bool.and_assoc]
  obtain ⟨d1, d2⟩ := compileField_dayish .day rfl s.day h3 c hc
  obtain ⟨w1, w2⟩ := compileField_dayish .wday rfl s.wday h5 c hc
  unfold specIsRunAt Spec.denote
  rw [hmhm]
  simp only [compileSpec]
  cases hd : s.day.isStar <;> cases hw : s.wday.isStar
  · obtain ⟨dn, dd⟩ := d2 hd
    obtain ⟨wn, wd⟩ := w2 hw
    have l1 : (compileField .day s.day).length ≠ 0 := by simpa using dn
    have l2 : (compileField .wday s.wday).length ≠ 0 := by simpa using wn
    have l1' : (compileField .day s.day).length > 0 := by omega
    have l2' : (compileField .wday s.wday).length > 0 := by omega
    simp only [dd, wd, l1, l2, l1', l2']
    cases s.day.denote .day c <;> cases s.wday.denote .wday c <;>
      cases s.minute.denote .minute c <;> cases s.hour.denote .hour c <;> cases s.month.denote .month c <;> simp
  · obtain ⟨dn, dd⟩ := d2 hd
    have wl := w1 hw
    have l1 : (compileField .day s.day).length ≠ 0 := by simpa using dn
    have sw := isStar_denote .wday c s.wday hw
    simp only [dd, wl, l1]
    simp only [listIsRunAt, listLoop, sw]
    cases s.day.denote .day c <;>
      cases s.minute.denote .minute c <;> cases s.hour.denote .hour c <;> cases s.month.denote .month c <;> simp
  · obtain ⟨wn, wd⟩ := w2 hw
    have dl := d1 hd
    have l2 : (compileField .wday s.wday).length ≠ 0 := by simpa using wn
    simp only [wd, dl, l2]
    simp only [listIsRunAt, listLoop]
    cases s.wday.denote .wday c <;>
      cases s.minute.denote .minute c <;> cases s.hour.denote .hour c <;> cases s.month.denote .month c <;> simp
  · have dl := d1 hd
    have wl := w1 hw
    have sw := isStar_denote .wday c s.wday hw
    simp only [dl, wl, listIsRunAt, listLoop, sw]
    cases s.minute.denote .minute c <;> cases s.hour.denote .hour c <;> cases s.month.denote .month c <;> simp

end ErgoVerif.Cron

import ErgoVerif.Lemmas.SupTrackOFO
/-
One-for-one tracking, part 2: the management calls, the loop of handleAction, and the closure over all
histories that avoid D26 (EnableChild while a child of the spec is still in the children table) and
D27 (StartChild/AddChild/EnableChild while the supervisor is stopping all children).
-/
namespace ErgoVerif.Sup

theorem findName_none_iff (n : Nat) (l : List ChildSpec) : findName n l = none ↔ ∀ c, c ∈ l → c.name ≠ n := by
  induction l with
  | nil => simp [findName]
  | cons a t ih =>
    simp only [findName]
    split
    · rename_i h
      constructor
      · intro hx; simp at hx
      · intro hall; exact absurd h (hall a (by simp))
    · rename_i h
      rw [ih]
      constructor
      · intro hall c hc
        rcases List.mem_cons.mp hc with rfl | hc
        · exact h
        · exact hall c hc
      · intro hall c hc; exact hall c (List.mem_cons_of_mem _ hc)

theorem findName_mem (n : Nat) (l : List ChildSpec) (c : ChildSpec) (h : findName n l = some c) : c ∈ l ∧ c.name = n := by
  obtain ⟨k, hk, hn⟩ := findName_getElem n l c h
  exact ⟨List.mem_of_getElem? hk, hn⟩

/-- with distinct names `updName` is a map -/
theorem updName_eq_map (n : Nat) (f : ChildSpec → ChildSpec) (l : List ChildSpec) (hnd : (l.map (·.name)).Nodup) :
    updName n f l = l.map (fun c => if c.name = n then f c else c) := by
  induction l with
  | nil => rfl
  | cons a t ih =>
    simp only [List.map_cons, List.nodup_cons, List.mem_map, not_exists, not_and] at hnd
    simp only [updName, List.map_cons]
    split
    · rename_i ha
      congr 1
      have : ∀ c, c ∈ t → (if c.name = n then f c else c) = c := by
        intro c hc
        have := hnd.1 c hc
        rw [if_neg (by rw [← ha]; exact this)]
      calc t = t.map id := (List.map_id t).symm
        _ = t.map (fun c => if c.name = n then f c else c) := List.map_congr_left (fun c hc => (this c hc).symm)
    · rw [ih hnd.2]

/-- the specs change only in fields the tracking invariant does not look at -/
theorem OFO.tinv_map (m m' : OFO) (kids : List (Nat × Nat)) (h : OFO.TInv m kids) (g : ChildSpec → ChildSpec)
    (hg : ∀ c, c ∈ m.spec → (g c).name = c.name ∧ (g c).pid = c.pid)
    (hs : m'.spec = m.spec.map g) (hsd : m'.shutdown = m.shutdown) (hw : m'.wait = m.wait)
    (hr : m'.shutdownReason = m.shutdownReason) : OFO.TInv m' kids := by
  have hmem : ∀ c', c' ∈ m'.spec ↔ ∃ c, c ∈ m.spec ∧ c' = g c := by
    intro c'; rw [hs, List.mem_map]
    constructor
    · rintro ⟨c, hc, rfl⟩; exact ⟨c, hc, rfl⟩
    · rintro ⟨c, hc, rfl⟩; exact ⟨c, hc, rfl⟩
  constructor
  · rw [hs, List.map_map]
    have : m.spec.map ((fun c => c.name) ∘ g) = m.spec.map (fun c => c.name) :=
      List.map_congr_left (fun c hc => (hg c hc).1)
    rw [this]; exact h.names
  · intro c' hc'
    obtain ⟨c, hc, rfl⟩ := (hmem c').mp hc'
    rw [(hg c hc).1]; exact h.nz c hc
  · intro c1 c2 h1 h2 he hne
    obtain ⟨d1, hd1, rfl⟩ := (hmem c1).mp h1
    obtain ⟨d2, hd2, rfl⟩ := (hmem c2).mp h2
    rw [(hg d1 hd1).2, (hg d2 hd2).2] at he
    rw [(hg d1 hd1).2] at hne
    rw [h.pinj d1 d2 hd1 hd2 he hne]
  · intro hx
    rw [hsd] at hx
    have ⟨hA, hB⟩ := h.normal hx
    constructor
    · intro p
      rw [hA p]
      constructor
      · rintro ⟨hp0, c, hc, hcp⟩; exact ⟨hp0, g c, (hmem _).mpr ⟨c, hc, rfl⟩, by rw [(hg c hc).2]; exact hcp⟩
      · rintro ⟨hp0, c', hc', hcp⟩
        obtain ⟨c, hc, rfl⟩ := (hmem c').mp hc'
        exact ⟨hp0, c, hc, by rw [← (hg c hc).2]; exact hcp⟩
    · intro p n hpn
      obtain ⟨c, hc, hcn, hcp⟩ := hB p n hpn
      exact ⟨g c, (hmem _).mpr ⟨c, hc, rfl⟩, by rw [(hg c hc).1]; exact hcn, by rw [(hg c hc).2]; exact hcp⟩
  · intro hx
    rw [hsd] at hx
    rw [hw, hr]; exact h.shut hx

/-- results of the management calls: the answer is good and never a terminating one -/
def OFO.TRes (m : OFO) (kids : List (Nat × Nat)) : Res → Prop
  | .ok a => OFO.TGood m kids a ∧ ApiOK a
  | .err _ => True
  | .panic => False

theorem OFO.childSpec_track (m : OFO) (kids : List (Nat × Nat)) (h : OFO.TInv m kids) (hwf : OFO.WF m)
    (hsd : m.shutdown = false) (name args : Nat) :
    let r := m.childSpec name
    let r' := match r.2 with
      | .ok a => (r.1, Res.ok (if args > 0 then { a with spec := { a.spec with args := args } } else a))
      | _ => r
    r'.1 = m ∧ OFO.TRes m kids r'.2 := by
  rcases hwf.mode with hm | hm
  rotate_left
  · have : m.childSpec name = (m, .err .strategyActive) := by simp [OFO.childSpec, hm]
    rw [this]; exact ⟨by simp, by simp [OFO.TRes]⟩
  rcases OFO.childSpec_cases m name hm with ⟨e, he⟩ | ⟨c, hc, hf, hp, _⟩
  · rw [he]; exact ⟨by simp, by simp [OFO.TRes]⟩
  · rw [hc]
    obtain ⟨k, hk, hn⟩ := findName_getElem name m.spec c hf
    have hi := hwf.idx k c hk
    simp only
    refine ⟨trivial, ?_⟩
    simp only [OFO.TRes]
    split
    · exact ⟨by simp only [OFO.TGood]; exact ⟨hsd, ⟨c, by simpa [hi] using hk, rfl⟩, c, by simpa [hi] using hk, hp⟩, by simp [ApiOK]⟩
    · exact ⟨by simp only [OFO.TGood]; exact ⟨hsd, ⟨c, by simpa [hi] using hk, rfl⟩, c, by simpa [hi] using hk, hp⟩, by simp [ApiOK]⟩

theorem OFO.childAddSpec_track (m : OFO) (kids : List (Nat × Nat)) (h : OFO.TInv m kids) (hwf : OFO.WF m)
    (hsd : m.shutdown = false) (name : Nat) (sig : Bool) :
    OFO.TInv (m.childAddSpec name sig).1 kids ∧ OFO.TRes (m.childAddSpec name sig).1 kids (m.childAddSpec name sig).2 ∧
    (m.childAddSpec name sig).1.shutdown = m.shutdown := by
  rcases hwf.mode with hm | hm
  rotate_left
  · have : m.childAddSpec name sig = (m, .err .strategyActive) := by simp [OFO.childAddSpec, hm]
    rw [this]; exact ⟨h, trivial, rfl⟩
  unfold OFO.childAddSpec
  have hcond : ¬ (m.mode ≠ 0 ∨ m.shutdown = true) := by simp [hm, hsd]
  rw [if_neg hcond]
  split
  · exact ⟨h, trivial, rfl⟩
  · rename_i hvalid
    split
    · exact ⟨h, trivial, rfl⟩
    · rename_i hdup
      have hnone : findName name m.spec = none := by
        cases hx : findName name m.spec with
        | none => rfl
        | some c => rw [hx] at hdup; simp at hdup
      have hnew := (findName_none_iff name m.spec).mp hnone
      have hn0 : name ≠ 0 := by simpa [validName] using hvalid
      have ⟨hA, hB⟩ := h.normal hsd
      refine ⟨?_, ?_, rfl⟩
      · constructor
        · simp only [List.map_append, List.map_cons, List.map_nil]
          rw [List.nodup_append]
          refine ⟨h.names, by simp, ?_⟩
          intro a ha b hb
          simp at hb; subst hb
          rw [List.mem_map] at ha
          obtain ⟨c, hc, rfl⟩ := ha
          exact hnew c hc
        · intro c hc
          rcases List.mem_append.mp hc with hc | hc
          · exact h.nz c hc
          · simp at hc; subst hc; exact hn0
        · intro c1 c2 h1 h2 he hne
          rcases List.mem_append.mp h1 with h1 | h1 <;> rcases List.mem_append.mp h2 with h2 | h2
          · exact h.pinj c1 c2 h1 h2 he hne
          · simp at h2; subst h2; simp at he; exact absurd he hne
          · simp at h1; subst h1; simp at hne
          · simp at h1 h2; rw [h1, h2]
        · intro _
          constructor
          · intro p
            rw [hA p]
            constructor
            · rintro ⟨hp0, c, hc, hcp⟩; exact ⟨hp0, c, List.mem_append_left _ hc, hcp⟩
            · rintro ⟨hp0, c, hc, hcp⟩
              rcases List.mem_append.mp hc with hc | hc
              · exact ⟨hp0, c, hc, hcp⟩
              · simp at hc; subst hc; simp at hcp; exact absurd hcp.symm hp0
          · intro p n hpn
            obtain ⟨c, hc, h1, h2⟩ := hB p n hpn
            exact ⟨c, List.mem_append_left _ hc, h1, h2⟩
        · intro hx; rw [hsd] at hx; simp at hx
      · have hat : (m.spec ++ [({ name := name, significant := sig, register := true, i := m.i } : ChildSpec)])[m.i]? =
            some ({ name := name, significant := sig, register := true, i := m.i } : ChildSpec) := by
          rw [hwf.next]; simp
        simp only [OFO.TRes, OFO.TGood, ApiOK]
        exact ⟨⟨hsd, ⟨_, hat, rfl⟩, _, hat, rfl⟩, by simp⟩

theorem OFO.childDisable_track (m : OFO) (kids : List (Nat × Nat)) (h : OFO.TInv m kids) (hl : OFO.Live m kids) (name : Nat) :
    OFO.TInv (m.childDisable name).1 kids ∧ OFO.TRes (m.childDisable name).1 kids (m.childDisable name).2 ∧
    (m.childDisable name).1.shutdown = m.shutdown := by
  unfold OFO.childDisable
  have hupd : ∀ m' : OFO, m'.spec = updName name (fun c => { c with disabled := true }) m.spec → m'.shutdown = m.shutdown →
      m'.wait = m.wait → m'.shutdownReason = m.shutdownReason → OFO.TInv m' kids := by
    intro m' hs h1 h2 h3
    rw [updName_eq_map _ _ _ h.names] at hs
    exact OFO.tinv_map m m' kids h _ (fun c _ => by split <;> exact ⟨rfl, rfl⟩) hs h1 h2 h3
  cases hf : findName name m.spec with
  | none => exact ⟨h, trivial, rfl⟩
  | some c =>
    simp only
    split
    · exact ⟨h, by simp [OFO.TRes, OFO.TGood, ApiOK]; exact hl, rfl⟩
    · split
      · refine ⟨hupd _ rfl rfl rfl rfl, ?_, rfl⟩
        simp only [OFO.TRes, OFO.TGood, ApiOK]
        exact ⟨fun hx => hl hx, by simp⟩
      · refine ⟨hupd _ rfl rfl rfl rfl, ?_, rfl⟩
        simp only [OFO.TRes, OFO.TGood, ApiOK]
        refine ⟨⟨by simp, fun _ hx => hl hx⟩, by simp⟩

/-- EnableChild, under the D26 exclusion: no entry of the children table carries this spec name -/
theorem OFO.childEnable_track (m : OFO) (kids : List (Nat × Nat)) (h : OFO.TInv m kids) (hwf : OFO.WF m)
    (hsd : m.shutdown = false) (name : Nat) (hsafe : ∀ p, (p, name) ∉ kids) :
    OFO.TInv (m.childEnable name).1 kids ∧ OFO.TRes (m.childEnable name).1 kids (m.childEnable name).2 ∧
    (m.childEnable name).1.shutdown = m.shutdown := by
  unfold OFO.childEnable
  have hns : ¬ (m.shutdown = true) := by simp [hsd]
  rw [if_neg hns]
  cases hf : findName name m.spec with
  | none => exact ⟨h, trivial, rfl⟩
  | some c =>
    simp only
    have ⟨hcm, hcn⟩ := findName_mem name m.spec c hf
    obtain ⟨k, hk, _⟩ := findName_getElem name m.spec c hf
    have hi := hwf.idx k c hk
    have ⟨hA, hB⟩ := h.normal hsd
    -- the spec has no child: otherwise its pid would be in the table, under this very name
    have hp0 : c.pid = 0 := by
      cases hcp : c.pid with
      | zero => rfl
      | succ q =>
        exfalso
        have hin : c.pid ∈ keys kids := (hA c.pid).mpr ⟨by rw [hcp]; simp, c, hcm, rfl⟩
        simp [keys] at hin
        obtain ⟨n', hn'⟩ := hin
        obtain ⟨c2, hc2, h2n, h2p⟩ := hB c.pid n' hn'
        have := h.pinj c2 c hc2 hcm h2p (by rw [h2p, hcp]; simp)
        subst this
        rw [hcn] at h2n
        subst h2n
        exact hsafe _ hn'
    split
    · exact ⟨h, by simp [OFO.TRes, OFO.TGood, ApiOK, OFO.Live, hsd], rfl⟩
    · have hmap : updName name (fun _ => ({ c with disabled := false } : ChildSpec)) m.spec =
          m.spec.map (fun x => if x.name = name then ({ c with disabled := false } : ChildSpec) else x) :=
        updName_eq_map _ _ _ h.names
      have hg : ∀ x, x ∈ m.spec →
          ((fun x : ChildSpec => if x.name = name then ({ c with disabled := false } : ChildSpec) else x) x).name = x.name ∧
          ((fun x : ChildSpec => if x.name = name then ({ c with disabled := false } : ChildSpec) else x) x).pid = x.pid := by
        intro x hx
        simp only
        split
        · rename_i hxn
          have : x = c := spec_unique h.names hx hcm (hxn.trans hcn.symm)
          subst this; exact ⟨rfl, rfl⟩
        · exact ⟨rfl, rfl⟩
      refine ⟨OFO.tinv_map m _ kids h _ hg hmap rfl rfl rfl, ?_, rfl⟩
      simp only [OFO.TRes, OFO.TGood, ApiOK]
      have hat : (updName name (fun _ => ({ c with disabled := false } : ChildSpec)) m.spec)[c.i]? = some ({ c with disabled := false } : ChildSpec) := by
        rw [hmap, List.getElem?_map, hi, hk]
        simp [hcn]
      exact ⟨⟨hsd, ⟨_, hat, rfl⟩, _, hat, hp0⟩, by simp⟩


/-! ### the loop of handleAction and the closed system -/

/-- everything the tracking theorem says about a configuration, except the glue invariant -/
structure OFO.TrackCore (c : Loop OFO) : Prop where
  wf : OFO.WF c.m
  tinv : OFO.TInv c.m c.kids
  fresh : (∀ p, p ∈ keys c.kids → p < c.nextPid) ∧ c.nextPid ≠ 0
  live : c.status = .running → OFO.Live c.m c.kids
  term : ∀ r, c.status = .terminated r → (∀ p, p ∉ keys c.kids) ∧ (c.m.shutdown = true → c.m.shutdownReason = some r)
  sane : c.status ≠ .panicked ∧ c.status ≠ .stuck

theorem OFO.trackCore_status (c : Loop OFO) (st : Status) (hwf : OFO.WF c.m) (ht : OFO.TInv c.m c.kids)
    (hf : (∀ p, p ∈ keys c.kids → p < c.nextPid) ∧ c.nextPid ≠ 0)
    (hlive : st = .running → OFO.Live c.m c.kids)
    (hterm : ∀ r, st = .terminated r → (∀ p, p ∉ keys c.kids) ∧ (c.m.shutdown = true → c.m.shutdownReason = some r))
    (hs : st ≠ .panicked ∧ st ≠ .stuck) : OFO.TrackCore { c with status := st } :=
  ⟨hwf, ht, hf, hlive, hterm, hs⟩

theorem OFO.handle_track (fuel : Nat) (fromApi : Bool) : ∀ (bits : List Bool) (c : Loop OFO) (a : Action),
    OFO.WF c.m → OFO.TInv c.m c.kids → ((∀ p, p ∈ keys c.kids → p < c.nextPid) ∧ c.nextPid ≠ 0) →
    OFO.TGood c.m c.kids a → (a.act = .start → c.m.spec.length < fuel + a.spec.i) → 0 < fuel →
    c.status = .running → (fromApi = true → ApiOK a) →
    OFO.TrackCore (finish fromApi (handleAction ofoMachine fuel bits c a)) := by
  induction fuel with
  | zero => intro bits c a _ _ _ _ _ h0; omega
  | succ n ih =>
    intro bits c a hwf ht hf hgood hfuel _ hst hapi
    have hc : c = { c with status := .running } := by rw [← hst]
    rw [handleAction]
    unfold OFO.TGood at hgood
    cases ha : a.act with
    | nothing =>
      simp only [ha] at hgood
      simp only [finish]
      rw [hc]; exact OFO.trackCore_status c _ hwf ht hf (fun _ => hgood) (by intro r hr; simp at hr) (by simp)
    | terminate =>
      simp only [ha] at hgood
      cases hr : a.reason with
      | none => exact absurd hr hgood.1
      | some e =>
        simp only [finish]
        cases fromApi with
        | true => exact absurd ha (hapi rfl).1
        | false =>
          simp only [Bool.false_eq_true, if_false]
          exact OFO.trackCore_status c _ hwf ht hf (by intro hx; simp at hx)
            (by intro r' hr'; simp at hr'; subst hr'; exact ⟨(hgood.2 e hr).2, (hgood.2 e hr).1⟩) (by simp)
    | terminateChildren =>
      simp only [ha] at hgood
      simp only
      split
      · rename_i hemp
        cases hr : a.reason with
        | none =>
          simp only [finish]
          rw [hc]; exact OFO.trackCore_status c _ hwf ht hf (fun _ => hgood.2 (Or.inr hr)) (by intro r hr; simp at hr) (by simp)
        | some e =>
          simp only [finish]
          cases fromApi with
          | true => have := (hapi rfl).2 ha; rw [hemp] at this; simp at this
          | false =>
            simp only [Bool.false_eq_true, if_false]
            exact OFO.trackCore_status c _ hwf ht hf (by intro hx; simp at hx)
              (by intro r' hr'; simp at hr'; subst hr'; exact ⟨(hgood.1 hemp e hr).2, (hgood.1 hemp e hr).1⟩) (by simp)
      · rename_i hemp
        simp only [finish]
        exact ⟨hwf, ht, hf, fun _ => hgood.2 (Or.inl (by simpa using hemp)), by intro r hr; simp [hst] at hr, by simp [hst]⟩
    | start =>
      simp only [ha] at hgood
      simp only
      split
      · simp only [finish]
        cases fromApi with
        | true =>
          simp only [if_true]
          rw [hc]; exact OFO.trackCore_status c _ hwf ht hf (fun _ hx => by rw [hgood.1] at hx; simp at hx) (by intro r hr; simp at hr) (by simp)
        | false =>
          simp only [Bool.false_eq_true, if_false]
          exact OFO.trackCore_status c _ hwf ht hf (by intro hx; simp at hx) (by intro r hr; simp at hr) (by simp)
      · -- spawned
        have hg1 := OFO.childStarted_good c.m a c.nextPid hwf hgood.2.1
        obtain ⟨hwf', a1, hres1, _, hnext1, hlen1⟩ := hg1
        have hg2 := OFO.childStarted_track c.m c.kids ht a hgood c.nextPid hf.2 hf.1
        obtain ⟨ht', a2, hres2, hgood2, hkind2⟩ := hg2
        have ha12 : a1 = a2 := by rw [hres1] at hres2; simpa using hres2
        subst ha12
        simp only [ofoMachine, hres1]
        have hvi : a.spec.i < c.m.spec.length := by
          obtain ⟨sp, hsp, _⟩ := hgood.2.1
          exact (List.getElem?_eq_some_iff.mp hsp).1
        have hn0 : 0 < n := by have := hfuel ha; omega
        apply ih bits.tail _ a1 hwf' ht'
        · constructor
          · intro p hp
            rw [mem_keys_cons] at hp
            rcases hp with rfl | hp
            · simp
            · have := hf.1 p hp; simp; omega
          · simp
        · exact hgood2
        · intro hs1
          have := (hnext1 hs1).2
          have := hfuel ha
          simp only; rw [hlen1]; omega
        · exact hn0
        · exact hst
        · intro _
          rcases hkind2 with hk | hk
          · exact ⟨by rw [hk]; simp, by rw [hk]; simp⟩
          · exact ⟨by rw [hk]; simp, by rw [hk]; simp⟩

/-- the tracking invariant of the closed one-for-one system -/
structure OFO.Track (c : Loop OFO) : Prop where
  glue : Glue c
  core : OFO.TrackCore c

/-- the D26 exclusion, as a decidable condition on (configuration, label): no EnableChild for a spec that still has an
entry in the children table (while the supervisor is shutting down the call is refused and changes nothing).
StartChild / AddChild / EnableChild while shutting down (the former D27 region) are ordinary steps: they are refused. -/
def ofoSafe (c : Loop OFO) : Label → Bool
  | .enable name _ => c.m.shutdown || !(c.kids.any (fun k => k.2 == name))
  | _ => true

/-- while the supervisor is stopping its children the three calls are refused and change nothing -/
theorem OFO.childSpec_shut (m : OFO) (name : Nat) (h : m.shutdown = true) : m.childSpec name = (m, .err .strategyActive) := by
  simp [OFO.childSpec, h]
theorem OFO.childAddSpec_shut (m : OFO) (name : Nat) (sig : Bool) (h : m.shutdown = true) :
    m.childAddSpec name sig = (m, .err .strategyActive) := by
  simp [OFO.childAddSpec, h]
theorem OFO.childEnable_shut (m : OFO) (name : Nat) (h : m.shutdown = true) : m.childEnable name = (m, .err .strategyActive) := by
  simp [OFO.childEnable, h]

def ofoStepSafe (c : Loop OFO) (l : Label) : Option (Loop OFO) := if ofoSafe c l then ofoStep c l else none

/-- what the answer of a state-machine method must satisfy before `afterCall` carries it out -/
def OFO.CallOK (m : OFO) (kids : List (Nat × Nat)) (fromApi : Bool) : Res → Prop
  | .ok a => OFO.TGood m kids a ∧ (fromApi = true → ApiOK a)
  | .err _ => OFO.Live m kids
  | .panic => False

theorem OFO.afterCall_track (fuel : Nat) (fromApi : Bool) (bits : List Bool) (c : Loop OFO) (r : OFO × Res)
    (hg : Glue c) (hst : c.status = .running) (hn0 : c.nextPid ≠ 0)
    (hwf : OFO.WF r.1) (ht : OFO.TInv r.1 c.kids)
    (hres : OFO.CallOK r.1 c.kids fromApi r.2)
    (hfuel : r.1.spec.length + 2 ≤ fuel) :
    OFO.Track (afterCall ofoMachine fuel fromApi bits c r) := by
  have hG := (afterCall_glue ofoMachine fuel fromApi bits c r hg).1
  refine ⟨hG, ?_⟩
  unfold afterCall
  cases hr : r.2 with
  | ok a =>
    simp only
    rw [hr] at hres
    simp only [OFO.CallOK] at hres
    exact OFO.handle_track fuel fromApi bits _ a hwf ht ⟨hg.fresh, hn0⟩ hres.1 (fun _ => by simp only; omega) (by omega) hst hres.2
  | err e =>
    simp only
    rw [hr] at hres
    simp only [OFO.CallOK] at hres
    exact ⟨hwf, ht, ⟨hg.fresh, hn0⟩, fun _ => hres, by intro r' hr'; simp [hst] at hr', by simp [hst]⟩
  | panic => rw [hr] at hres; exact hres.elim


/-- `afterCall` for an answer that leaves the machine unchanged -/
theorem OFO.afterCall_track_eq (fuel : Nat) (fromApi : Bool) (bits : List Bool) (c : Loop OFO) (r : OFO × Res)
    (hg : Glue c) (hst : c.status = .running) (hn0 : c.nextPid ≠ 0) (hm : r.1 = c.m)
    (hwf : OFO.WF c.m) (ht : OFO.TInv c.m c.kids) (hres : OFO.CallOK c.m c.kids fromApi r.2)
    (hfuel : c.m.spec.length + 2 ≤ fuel) :
    OFO.Track (afterCall ofoMachine fuel fromApi bits c r) := by
  obtain ⟨m', res⟩ := r
  simp only at hm hres
  subst hm
  exact OFO.afterCall_track fuel fromApi bits c _ hg hst hn0 hwf ht hres hfuel

theorem OFO.tres_to_match (m : OFO) (kids : List (Nat × Nat)) (r : Res) (h : OFO.TRes m kids r) (hl : OFO.Live m kids) :
    OFO.CallOK m kids true r := by
  cases r with
  | ok a => simp only [OFO.TRes] at h; exact ⟨h.1, fun _ => h.2⟩
  | err e => exact hl
  | panic => exact h

theorem OFO.live_of_shutdown_eq {m m' : OFO} {kids : List (Nat × Nat)} (h : OFO.Live m kids) (hs : m'.shutdown = m.shutdown) :
    OFO.Live m' kids := by
  intro hx; rw [hs] at hx; exact h hx

/-- every SAFE step of the closed one-for-one system keeps the tracking invariant -/
theorem OFO.step_track (c c' : Loop OFO) (l : Label) (h : OFO.Track c) (hs : ofoStepSafe c l = some c') : OFO.Track c' := by
  unfold ofoStepSafe at hs
  split at hs
  rotate_left
  · simp at hs
  rename_i hsafe
  unfold ofoStep at hs
  have hlen : ∀ m' : OFO, OFO.WF m' → m'.i ≤ c.m.i + 1 → m'.spec.length + 2 ≤ c.m.spec.length + 3 := by
    intro m' hw hi
    rw [← hw.next, ← h.core.wf.next]; omega
  cases l with
  | die pid r =>
    have hG := step_glue ofoMachine _ c c' _ h.glue hs
    simp only [step] at hs
    split at hs; · simp at hs
    split at hs
    · simp only [Option.some.injEq] at hs; subst hs
      exact ⟨hG, h.core.wf, h.core.tinv, h.core.fresh, h.core.live, h.core.term, h.core.sane⟩
    · simp at hs
  | deliver pid now bits =>
    simp only [step] at hs
    split at hs; · simp at hs
    split at hs; · simp at hs
    rename_i hst _ r hr
    simp only [Option.some.injEq] at hs; subst hs
    have hst' : c.status = .running := by simpa using hst
    have hin := lookupReason_mem pid c.inflight r hr
    have hpk : pid ∈ keys c.kids := (h.glue.kids_iff pid).mpr (Or.inr (by simp [keys]; exact ⟨r, hin⟩))
    have hk := lookupKid_mem pid c.kids hpk
    have hwfg := OFO.ct_good c.m (lookupKid pid c.kids) pid r now h.core.wf
    have hfu := hlen _ hwfg.1 (by have := OFO.ct_i c.m (lookupKid pid c.kids) pid r now; omega)
    have hG1 := deliver_pre_glue c pid r c.m h.glue hr
    cases hsd : c.m.shutdown with
    | false =>
      obtain ⟨hT, a, ha, hga⟩ := OFO.ct_track c.m c.kids h.core.tinv h.core.wf hsd pid _ hk r now
      have hC : OFO.CallOK (c.m.childTerminated (lookupKid pid c.kids) pid r now).1 (c.kids.filter (fun x => x.1 ≠ pid)) false
          (c.m.childTerminated (lookupKid pid c.kids) pid r now).2 := by rw [ha]; exact ⟨hga, by simp⟩
      exact OFO.afterCall_track _ false bits _ _ hG1 hst' h.core.fresh.2 hwfg.1 hT hC hfu
    | true =>
      obtain ⟨hT, a, ha, hga⟩ := OFO.ct_track_shut c.m c.kids h.core.tinv hsd pid (lookupKid pid c.kids) r now
      have hC : OFO.CallOK (c.m.childTerminated (lookupKid pid c.kids) pid r now).1 (c.kids.filter (fun x => x.1 ≠ pid)) false
          (c.m.childTerminated (lookupKid pid c.kids) pid r now).2 := by rw [ha]; exact ⟨hga, by simp⟩
      exact OFO.afterCall_track _ false bits _ _ hG1 hst' h.core.fresh.2 hwfg.1 hT hC hfu
  | foreign r now bits =>
    simp only [step] at hs
    split at hs; · simp at hs
    rename_i hst
    simp only [Option.some.injEq] at hs; subst hs
    have hst' : c.status = .running := by simpa using hst
    have hwfg := OFO.ct_good c.m 0 c.nextPid r now h.core.wf
    have hfu := hlen _ hwfg.1 (by have := OFO.ct_i c.m 0 c.nextPid r now; omega)
    have hG1 : Glue ({ c with nextPid := c.nextPid + 1 } : Loop OFO) := glue_of_fields h.glue rfl rfl rfl (Nat.le_succ _)
    cases hsd : c.m.shutdown with
    | false =>
      obtain ⟨hT, a, ha, hga⟩ := OFO.ct_track_foreign c.m c.kids h.core.tinv hsd c.nextPid h.core.fresh.2 h.core.fresh.1 r now
      have hC : OFO.CallOK (c.m.childTerminated 0 c.nextPid r now).1 c.kids false (c.m.childTerminated 0 c.nextPid r now).2 := by
        rw [ha]; exact ⟨hga, by simp⟩
      exact OFO.afterCall_track _ false bits _ _ hG1 hst' (by simp) hwfg.1 hT hC hfu
    | true =>
      obtain ⟨hT, a, ha, hga⟩ := OFO.ct_track_shut c.m c.kids h.core.tinv hsd c.nextPid 0 r now
      rw [filter_fresh c.kids c.nextPid h.core.fresh.1] at hT hga
      have hC : OFO.CallOK (c.m.childTerminated 0 c.nextPid r now).1 c.kids false (c.m.childTerminated 0 c.nextPid r now).2 := by
        rw [ha]; exact ⟨hga, by simp⟩
      exact OFO.afterCall_track _ false bits _ _ hG1 hst' (by simp) hwfg.1 hT hC hfu
  | startChild name args bits =>
    simp only [step] at hs
    split at hs; · simp at hs
    rename_i hst
    simp only [Option.some.injEq] at hs; subst hs
    have hst' : c.status = .running := by simpa using hst
    cases hsd : c.m.shutdown with
    | true =>
      have hr : ofoMachine.childSpec c.m name = (c.m, .err .strategyActive) := OFO.childSpec_shut c.m name hsd
      rw [hr]
      exact OFO.afterCall_track _ true bits c (c.m, .err .strategyActive) h.glue hst' h.core.fresh.2 h.core.wf h.core.tinv
        (h.core.live hst') (by show c.m.spec.length + 2 ≤ _; omega)
    | false =>
    have hg := OFO.childSpec_good c.m name args h.core.wf
    have ht := OFO.childSpec_track c.m c.kids h.core.tinv h.core.wf hsd name args
    simp only at hg ht
    exact OFO.afterCall_track_eq _ true bits c _ h.glue hst' h.core.fresh.2 ht.1 h.core.wf h.core.tinv
      (OFO.tres_to_match c.m c.kids _ ht.2 (h.core.live hst')) (by omega)
  | addChild name sig bits =>
    simp only [step] at hs
    split at hs; · simp at hs
    rename_i hst
    simp only [Option.some.injEq] at hs; subst hs
    have hst' : c.status = .running := by simpa using hst
    cases hsd : c.m.shutdown with
    | true =>
      have hr : ofoMachine.childAddSpec c.m name sig = (c.m, .err .strategyActive) := OFO.childAddSpec_shut c.m name sig hsd
      rw [hr]
      exact OFO.afterCall_track _ true bits c (c.m, .err .strategyActive) h.glue hst' h.core.fresh.2 h.core.wf h.core.tinv
        (h.core.live hst') (by show c.m.spec.length + 2 ≤ _; omega)
    | false =>
    have hg := OFO.childAddSpec_good c.m name sig h.core.wf
    have ht := OFO.childAddSpec_track c.m c.kids h.core.tinv h.core.wf hsd name sig
    exact OFO.afterCall_track _ true bits c _ h.glue hst' h.core.fresh.2 hg.1 ht.1
      (OFO.tres_to_match _ c.kids _ ht.2.1 (OFO.live_of_shutdown_eq (h.core.live hst') ht.2.2)) (hlen _ hg.1 (OFO.childAddSpec_i _ _ _))
  | enable name bits =>
    simp only [step] at hs
    split at hs; · simp at hs
    rename_i hst
    simp only [Option.some.injEq] at hs; subst hs
    have hst' : c.status = .running := by simpa using hst
    cases hsd : c.m.shutdown with
    | true =>
      have hr : ofoMachine.childEnable c.m name = (c.m, .err .strategyActive) := OFO.childEnable_shut c.m name hsd
      rw [hr]
      exact OFO.afterCall_track _ true bits c (c.m, .err .strategyActive) h.glue hst' h.core.fresh.2 h.core.wf h.core.tinv
        (h.core.live hst') (by show c.m.spec.length + 2 ≤ _; omega)
    | false =>
    have hsafe' : c.m.shutdown = false ∧ ∀ p, (p, name) ∉ c.kids := by
      simp only [ofoSafe, hsd, Bool.false_or, Bool.not_eq_true', List.any_eq_false, beq_iff_eq] at hsafe
      exact ⟨hsd, fun p hp => hsafe (p, name) hp rfl⟩
    have hg := OFO.childEnable_good c.m name h.core.wf
    have ht := OFO.childEnable_track c.m c.kids h.core.tinv h.core.wf hsafe'.1 name hsafe'.2
    exact OFO.afterCall_track _ true bits c _ h.glue hst' h.core.fresh.2 hg.1 ht.1
      (OFO.tres_to_match _ c.kids _ ht.2.1 (OFO.live_of_shutdown_eq (h.core.live hst') ht.2.2))
      (hlen _ hg.1 (by show (OFO.childEnable c.m name).1.i ≤ c.m.i + 1; rw [OFO.childEnable_i]; omega))
  | disable name =>
    simp only [step] at hs
    split at hs; · simp at hs
    rename_i hst
    simp only [Option.some.injEq] at hs; subst hs
    have hst' : c.status = .running := by simpa using hst
    have hg := OFO.childDisable_good c.m name h.core.wf
    have ht := OFO.childDisable_track c.m c.kids h.core.tinv (h.core.live hst') name
    exact OFO.afterCall_track _ true [] c _ h.glue hst' h.core.fresh.2 hg.1 ht.1
      (OFO.tres_to_match _ c.kids _ ht.2.1 (OFO.live_of_shutdown_eq (h.core.live hst') ht.2.2))
      (hlen _ hg.1 (by show (OFO.childDisable c.m name).1.i ≤ c.m.i + 1; rw [OFO.childDisable_i]; omega))


theorem mkSpecs_names (reg : Bool) (k : Nat) (l : List (Nat × Bool)) : (mkSpecs reg k l).map (·.name) = l.map (·.1) := by
  induction l generalizing k with
  | nil => rfl
  | cons a t ih => obtain ⟨n, sg⟩ := a; simp [mkSpecs, ih]

theorem mkSpecs_pid (reg : Bool) (k : Nat) (l : List (Nat × Bool)) (c : ChildSpec) (h : c ∈ mkSpecs reg k l) : c.pid = 0 := by
  induction l generalizing k with
  | nil => simp [mkSpecs] at h
  | cons a t ih =>
    obtain ⟨n, sg⟩ := a
    simp only [mkSpecs, List.mem_cons] at h
    rcases h with rfl | h
    · rfl
    · exact ih (k + 1) h

theorem mkSpecs_idx (l : List (Nat × Bool)) (k0 k : Nat) (c : ChildSpec) (h : (mkSpecs true k0 l)[k]? = some c) : c.i = k0 + k := by
  induction l generalizing k0 k with
  | nil => simp [mkSpecs] at h
  | cons a t ih =>
    obtain ⟨n, sg⟩ := a
    simp only [mkSpecs] at h
    cases k with
    | zero => simp at h; subst h; rfl
    | succ k' => simp at h; have := ih (k0 + 1) k' h; omega

theorem mkSpecs_length (l : List (Nat × Bool)) (k0 : Nat) : (mkSpecs true k0 l).length = l.length := by
  induction l generalizing k0 with
  | nil => rfl
  | cons a t ih => obtain ⟨n, sg⟩ := a; simp [mkSpecs, ih]

/-- the base case: ProcessInit of a valid spec -/
theorem OFO.boot_track (sp : SupSpec) (hv : ValidSpec sp) : OFO.Track (ofoBoot sp) := by
  unfold ofoBoot boot
  cases hch : sp.children with
  | nil => exact absurd hch hv.1
  | cons a t =>
    obtain ⟨n, sg⟩ := a
    have e : mkSpecs true 0 ((n, sg) :: t) = ({ name := n, significant := sg, register := true, i := 0 } : ChildSpec) :: mkSpecs true 1 t := rfl
    have hspec : (OFO.init {} sp).1.spec = mkSpecs true 0 sp.children := by
      simp only [OFO.init, hch, List.nil_append, e]
    have hres : (OFO.init {} sp).2 = .ok { act := .start, spec := { name := n, significant := sg, register := true, i := 0 } } := by
      simp only [OFO.init, hch, List.nil_append, e]
    have hmode : (OFO.init {} sp).1.mode = 1 := by
      simp only [OFO.init, hch, List.nil_append, e]
    have hi : (OFO.init {} sp).1.i = sp.children.length := by
      simp only [OFO.init, hch, List.nil_append, e]; simp
    have hsd : (OFO.init {} sp).1.shutdown = false := by
      simp only [OFO.init, hch, List.nil_append, e]
    have hwf : OFO.WF (OFO.init {} sp).1 := by
      constructor
      · intro k c hc; rw [hspec] at hc; have := mkSpecs_idx sp.children 0 k c hc; omega
      · exact Or.inr hmode
      · rw [hi, hspec, mkSpecs_length]
    have ht : OFO.TInv (OFO.init {} sp).1 [] := by
      constructor
      · rw [hspec, mkSpecs_names]; exact hv.2.1
      · intro c hc
        rw [hspec] at hc
        have : c.name ∈ (mkSpecs true 0 sp.children).map (·.name) := List.mem_map.mpr ⟨c, hc, rfl⟩
        rw [mkSpecs_names] at this
        exact hv.2.2 _ this
      · intro c1 c2 h1 _ _ hne
        rw [hspec] at h1
        exact absurd (mkSpecs_pid _ _ _ c1 h1) hne
      · intro _
        constructor
        · intro p
          constructor
          · intro hp; simp [keys] at hp
          · rintro ⟨hp0, c, hc, hcp⟩
            rw [hspec] at hc
            exact absurd ((mkSpecs_pid _ _ _ c hc).symm.trans hcp).symm hp0
        · intro p n' hpn; simp at hpn
      · intro hx; rw [hsd] at hx; simp at hx
    have hat : (OFO.init {} sp).1.spec[0]? = some ({ name := n, significant := sg, register := true, i := 0 } : ChildSpec) := by
      rw [hspec, hch, e]; rfl
    rw [← hch]
    apply OFO.afterCall_track _ false [] _ _ _ rfl (by simp) hwf ht
    · rw [hres]
      exact ⟨⟨hsd, ⟨_, hat, rfl⟩, _, hat, rfl⟩, by simp⟩
    · rw [hspec, mkSpecs_length]; omega
    · constructor <;> simp [keys]

/-- while shutting down the recorded reason is final (one-for-one) -/
theorem OFO.handle_m (fuel : Nat) : ∀ (bits : List Bool) (c : Loop OFO) (a : Action),
    (handleAction ofoMachine fuel bits c a).1.m.shutdown = c.m.shutdown ∧
    (handleAction ofoMachine fuel bits c a).1.m.shutdownReason = c.m.shutdownReason := by
  induction fuel with
  | zero => intro bits c a; simp [handleAction]
  | succ n ih =>
    intro bits c a
    rw [handleAction]
    cases ha : a.act with
    | nothing => simp
    | terminate => simp
    | terminateChildren => simp only; split <;> simp
    | start =>
      simp only
      split
      · simp
      · have hcs : (OFO.childStarted c.m a.spec c.nextPid).1.shutdown = c.m.shutdown ∧
            (OFO.childStarted c.m a.spec c.nextPid).1.shutdownReason = c.m.shutdownReason := by
          unfold OFO.childStarted
          split
          · exact ⟨rfl, rfl⟩
          · split
            · exact ⟨rfl, rfl⟩
            · dsimp only
              repeat' split
              all_goals exact ⟨rfl, rfl⟩
        cases hr : (ofoMachine.childStarted c.m a.spec c.nextPid).2 with
        | ok a' =>
          simp only
          have := ih bits.tail
            { c with nextPid := c.nextPid + 1, alive := (c.nextPid, a.spec.name) :: c.alive,
                     kids := (c.nextPid, a.spec.name) :: c.kids, m := (ofoMachine.childStarted c.m a.spec c.nextPid).1 } a'
          exact ⟨this.1.trans hcs.1, this.2.trans hcs.2⟩
        | err e => simp only; exact hcs
        | panic => simp only; exact hcs


theorem OFO.afterCall_m (fuel : Nat) (fromApi : Bool) (bits : List Bool) (c : Loop OFO) (r : OFO × Res) :
    (afterCall ofoMachine fuel fromApi bits c r).m.shutdown = r.1.shutdown ∧
    (afterCall ofoMachine fuel fromApi bits c r).m.shutdownReason = r.1.shutdownReason := by
  unfold afterCall
  cases hr : r.2 with
  | ok a =>
    simp only
    have h1 := OFO.handle_m fuel bits { c with m := r.1 } a
    have h2 := finish_fields fromApi (handleAction ofoMachine fuel bits { c with m := r.1 } a)
    rw [h2.2.2.2.2.2.1]
    exact h1
  | err e => simp
  | panic => simp

theorem OFO.ct_stable (m : OFO) (name pid : Nat) (r : Reason) (now : Int) (h : m.shutdown = true) :
    (m.childTerminated name pid r now).1.shutdown = true ∧
    (m.childTerminated name pid r now).1.shutdownReason = m.shutdownReason := by
  unfold OFO.childTerminated
  simp only [h, if_true]
  split <;> exact ⟨rfl, rfl⟩

theorem OFO.api_stable (m : OFO) (name : Nat) (sig : Bool) :
    ((m.childAddSpec name sig).1.shutdown = m.shutdown ∧ (m.childAddSpec name sig).1.shutdownReason = m.shutdownReason) ∧
    ((m.childEnable name).1.shutdown = m.shutdown ∧ (m.childEnable name).1.shutdownReason = m.shutdownReason) ∧
    ((m.childDisable name).1.shutdown = m.shutdown ∧ (m.childDisable name).1.shutdownReason = m.shutdownReason) := by
  refine ⟨?_, ?_, ?_⟩
  · unfold OFO.childAddSpec; repeat' split
    all_goals exact ⟨rfl, rfl⟩
  · unfold OFO.childEnable; repeat' split
    all_goals exact ⟨rfl, rfl⟩
  · unfold OFO.childDisable; repeat' split
    all_goals exact ⟨rfl, rfl⟩

/-- once a one-for-one supervisor is shutting down, every step keeps it so and keeps the recorded reason -/
theorem OFO.step_stable (c c' : Loop OFO) (l : Label) (hs : ofoStep c l = some c') (h : c.m.shutdown = true) :
    c'.m.shutdown = true ∧ c'.m.shutdownReason = c.m.shutdownReason := by
  unfold ofoStep at hs
  cases l with
  | die pid r =>
    simp only [step] at hs
    split at hs; · simp at hs
    split at hs
    · simp only [Option.some.injEq] at hs; subst hs; exact ⟨h, rfl⟩
    · simp at hs
  | deliver pid now bits =>
    simp only [step] at hs
    split at hs; · simp at hs
    split at hs; · simp at hs
    rename_i _ _ r _
    simp only [Option.some.injEq] at hs; subst hs
    have h1 := OFO.afterCall_m (c.m.spec.length + 3) false bits
      { c with inflight := c.inflight.filter (fun p => p.1 ≠ pid), kids := c.kids.filter (fun p => p.1 ≠ pid), noticed := pid :: c.noticed }
      (c.m.childTerminated (lookupKid pid c.kids) pid r now)
    have h2 := OFO.ct_stable c.m (lookupKid pid c.kids) pid r now h
    exact ⟨h1.1.trans h2.1, h1.2.trans h2.2⟩
  | foreign r now bits =>
    simp only [step] at hs
    split at hs; · simp at hs
    simp only [Option.some.injEq] at hs; subst hs
    have h1 := OFO.afterCall_m (c.m.spec.length + 3) false bits { c with nextPid := c.nextPid + 1 } (c.m.childTerminated 0 c.nextPid r now)
    have h2 := OFO.ct_stable c.m 0 c.nextPid r now h
    exact ⟨h1.1.trans h2.1, h1.2.trans h2.2⟩
  | startChild name args bits =>
    simp only [step] at hs
    split at hs; · simp at hs
    simp only [Option.some.injEq] at hs; subst hs
    have h1 := OFO.afterCall_m (c.m.spec.length + 3) true bits c
      (match (c.m.childSpec name).2 with
        | .ok a => ((c.m.childSpec name).1, Res.ok (if args > 0 then { a with spec := { a.spec with args := args } } else a))
        | _ => c.m.childSpec name)
    have hf : (match (c.m.childSpec name).2 with
        | .ok a => ((c.m.childSpec name).1, Res.ok (if args > 0 then { a with spec := { a.spec with args := args } } else a))
        | _ => c.m.childSpec name).1 = c.m := by
      cases hr : (c.m.childSpec name).2 <;> simp [OFO.childSpec_fst]
    rw [hf] at h1
    exact ⟨h1.1.trans h, h1.2⟩
  | addChild name sig bits =>
    simp only [step] at hs
    split at hs; · simp at hs
    simp only [Option.some.injEq] at hs; subst hs
    have h1 := OFO.afterCall_m (c.m.spec.length + 3) true bits c (c.m.childAddSpec name sig)
    have h2 := (OFO.api_stable c.m name sig).1
    exact ⟨(h1.1.trans h2.1).trans h, h1.2.trans h2.2⟩
  | enable name bits =>
    simp only [step] at hs
    split at hs; · simp at hs
    simp only [Option.some.injEq] at hs; subst hs
    have h1 := OFO.afterCall_m (c.m.spec.length + 3) true bits c (c.m.childEnable name)
    have h2 := (OFO.api_stable c.m name false).2.1
    exact ⟨(h1.1.trans h2.1).trans h, h1.2.trans h2.2⟩
  | disable name =>
    simp only [step] at hs
    split at hs; · simp at hs
    simp only [Option.some.injEq] at hs; subst hs
    have h1 := OFO.afterCall_m (c.m.spec.length + 3) true [] c (c.m.childDisable name)
    have h2 := (OFO.api_stable c.m name false).2.2
    exact ⟨(h1.1.trans h2.1).trans h, h1.2.trans h2.2⟩

end ErgoVerif.Sup

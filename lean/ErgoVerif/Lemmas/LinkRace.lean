import ErgoVerif.Model.LinkRace
import ErgoVerif.Lemmas.TM
namespace ErgoVerif.LinkRace
open ErgoVerif.TM

theorem run_append (rc : Bool) (s : St) (a b : List Ev) : run rc s (a ++ b) = run rc (run rc s a) b := by
  induction a generalizing s with
  | nil => rfl
  | cons e a ih => exact ih (step rc s e)

theorem onNode_unique (t : Target) (n m : Node) (h1 : t.onNode n = true) (h2 : t.onNode m = true) : n = m := by
  cases t <;> simp [Target.onNode] at h1 h2 <;> (rw [← h1, ← h2])

theorem lookup_dropNode_ne (c : List (Node × Nat)) (n m : Node) (h : m ≠ n) :
    lookup m (dropNode n c) = lookup m c := by
  induction c with
  | nil => rfl
  | cons a c ih =>
    show lookup m (if a.1 = n then dropNode n c else a :: dropNode n c) = (if a.1 = m then some a.2 else lookup m c)
    by_cases ha : a.1 = n
    · have hm : ¬ a.1 = m := fun e => h (e.symm.trans ha)
      rw [if_pos ha, if_neg hm]; exact ih
    · rw [if_neg ha]
      show (if a.1 = m then some a.2 else lookup m (dropNode n c)) = _
      by_cases hm : a.1 = m
      · rw [if_pos hm, if_pos hm]
      · rw [if_neg hm, if_neg hm]; exact ih

/-- the invariant of the race: the table is well formed; every request in flight points to the node of its target and
is the only one of its consumer; and every recorded relation on a remote target is either covered by a connection with
that node or belongs to a request that has not looked at the connection table again yet -/
structure Inv (s : St) : Prop where
  tm : TM.Inv s.tm
  reqNode : ∀ r ∈ s.pending ++ s.unchecked, r.k.target.onNode r.n = true
  covered : ∀ k ∈ s.tm.rel, ∀ n, k.target.onNode n = true → (s.connOf n).isSome = true ∨ ∃ r ∈ s.unchecked, r.k = k

theorem init_inv : Inv init := ⟨TM.init_inv, by simp [init], by simp [init, TM.init]⟩

theorem step_inv {s : St} (h : Inv s) (e : Ev) : Inv (step true s e) := by
  cases e with
  | up n =>
    simp only [step]
    split
    · exact h
    · refine ⟨h.tm, h.reqNode, ?_⟩
      intro k hk m hm
      rcases h.covered k hk m hm with hc | hr
      · left
        by_cases hmn : m = n
        · subst hmn; simp [St.connOf, lookup]
        · have hnm : ¬ n = m := fun e => hmn e.symm
          simp only [St.connOf, lookup, hnm, if_false] at hc ⊢
          exact hc
      · exact Or.inr hr
  | down n =>
    simp only [step]
    split
    · exact h
    · refine ⟨(cleanupNode_spec h.tm n).2.2, h.reqNode, ?_⟩
      intro k hk m hm
      change k ∈ (cleanupNode s.tm n).1.rel at hk
      rw [(cleanupNode_spec h.tm n).1] at hk
      obtain ⟨hk0, hkf⟩ := List.mem_filter.mp hk
      have hnot : k.target.onNode n = false := by
        simp only [Bool.and_eq_true, Bool.not_eq_eq_eq_not, Bool.not_true, targetOn] at hkf
        exact hkf.2
      have hmn : m ≠ n := by
        intro e; subst e; rw [hm] at hnot; cases hnot
      rcases h.covered k hk0 m hm with hc | hr
      · left
        simp only [St.connOf] at hc ⊢
        rw [lookup_dropNode_ne s.conn n m hmn]; exact hc
      · exact Or.inr hr
  | answered k n =>
    simp only [step]
    split
    · exact h
    · split
      · rename_i g _ hcond
        simp only [Bool.and_eq_true] at hcond
        refine ⟨h.tm, ?_, h.covered⟩
        intro r hr
        simp only [List.cons_append, List.mem_cons] at hr
        rcases hr with rfl | hr
        · exact hcond.1
        · exact h.reqNode r hr
      · exact h
  | add r =>
    simp only [step]
    split
    · rename_i hin
      split
      · refine ⟨h.tm, ?_, h.covered⟩
        intro r' hr'
        apply h.reqNode r'
        rcases List.mem_append.mp hr' with h1 | h1
        · exact List.mem_append.mpr (Or.inl (List.mem_of_mem_erase h1))
        · exact List.mem_append.mpr (Or.inr h1)
      · rename_i hnin
        simp only [if_true]
        refine ⟨add_inv r.k h.tm, ?_, ?_⟩
        · intro r' hr'
          rcases List.mem_append.mp hr' with h1 | h1
          · exact h.reqNode r' (List.mem_append.mpr (Or.inl (List.mem_of_mem_erase h1)))
          · rcases List.mem_cons.mp h1 with rfl | h2
            · exact h.reqNode _ (List.mem_append.mpr (Or.inl hin))
            · exact h.reqNode r' (List.mem_append.mpr (Or.inr h2))
        · intro k hk m hm
          change k ∈ (TM.add s.tm r.k).1.rel at hk
          rw [add_rel, if_neg hnin] at hk
          rcases List.mem_cons.mp hk with rfl | hk'
          · exact Or.inr ⟨r, List.mem_cons_self, rfl⟩
          · rcases h.covered k hk' m hm with hc | ⟨r', hr', hrk⟩
            · exact Or.inl hc
            · exact Or.inr ⟨r', List.mem_cons_of_mem _ hr', hrk⟩
    · exact h
  | recheck r =>
    simp only [step]
    split
    · rename_i hin
      have hsub : ∀ r' ∈ s.pending ++ s.unchecked.erase r, r'.k.target.onNode r'.n = true := by
        intro r' hr'
        apply h.reqNode r'
        rcases List.mem_append.mp hr' with h1 | h1
        · exact List.mem_append.mpr (Or.inl h1)
        · exact List.mem_append.mpr (Or.inr (List.mem_of_mem_erase h1))
      have hrn : r.k.target.onNode r.n = true := h.reqNode r (List.mem_append.mpr (Or.inr hin))
      -- a relation other than r.k keeps its witness
      have keep : ∀ k ∈ s.tm.rel, k ≠ r.k → ∀ m, k.target.onNode m = true →
          (s.connOf m).isSome = true ∨ ∃ r' ∈ s.unchecked.erase r, r'.k = k := by
        intro k hk hne m hm
        rcases h.covered k hk m hm with hc | ⟨r', hr', hrk⟩
        · exact Or.inl hc
        · refine Or.inr ⟨r', ?_, hrk⟩
          have : r' ≠ r := fun e => hne (by rw [← hrk, e])
          exact (List.mem_erase_of_ne this).mpr hr'
      split
      · rename_i hconn
        refine ⟨h.tm, hsub, ?_⟩
        intro k hk m hm
        by_cases hkr : k = r.k
        · subst hkr
          have : m = r.n := onNode_unique _ _ _ hm hrn
          subst this
          left
          change (s.connOf r.n).isSome = true
          rw [hconn]; rfl
        · exact keep k hk hkr m hm
      · split
        · refine ⟨remove_inv r.k h.tm, hsub, ?_⟩
          intro k hk m hm
          change k ∈ (TM.remove s.tm r.k).1.rel at hk
          rw [remove_rel] at hk
          have hne : k ≠ r.k := fun e => by
            subst e; exact (List.Nodup.not_mem_erase h.tm.1) hk
          exact keep k (List.mem_of_mem_erase hk) hne m hm
        · rename_i hnin
          refine ⟨h.tm, hsub, ?_⟩
          intro k hk m hm
          have hne : k ≠ r.k := fun e => hnin (e ▸ hk)
          exact keep k hk hne m hm
    · exact h

theorem run_inv (es : List Ev) : ∀ {s : St}, Inv s → Inv (run true s es) := by
  induction es with
  | nil => intro s h; exact h
  | cons e es ih => intro s h; exact ih (step_inv h e)

end ErgoVerif.LinkRace

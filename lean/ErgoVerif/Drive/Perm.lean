import ErgoVerif.Drive.Util
import ErgoVerif.Model.Perm
namespace ErgoVerif.Drive.Perm
open ErgoVerif.Drive ErgoVerif.Perm

def showErr : Err → String
  | .ok => "ok" | .incorrect => "incorrect" | .otherFactory => "otherfactory"
  | .unknown => "unknown" | .nameUnknown => "nameunknown" | .notAllowed => "notallowed"

def parseFlags? (s : String) : Option Flags :=
  match s.toList with
  | [a, b, c] => some ⟨a == '1', b == '1', c == '1'⟩
  | _ => none

def showSpawn : SpawnOutcome → String
  | .refusedByRequester => "refused"
  | .droppedByReceiver => "dropped"
  | .error e => s!"error {showErr e}"
  | .spawned f env => s!"spawned {f} {showNatList env}"

def showApp : AppOutcome → String
  | .refusedByRequester => "refused"
  | .droppedByReceiver => "dropped"
  | .error e => s!"error {showErr e}"
  | .started env => s!"started {showNatList env}"

/-- state = (table, history newest first); lines:
  `es name factory nodes` `ds name nodes` `ea name nodes` `da name nodes`  → error code
  `qs name source` → `<err> <factory> <justified 0|1>`      `qa name source` → `<err> <justified>`
  `rs peerFlags nodeFlags name requester expose env` / `ra …` → end-to-end outcome on the current table
  `eff given fallback` → effective flags; `wire f` → flags after MarshalEDF/UnmarshalEDF
  `reset` -/
def line (st : St × List Op) (s : String) : (St × List Op) × String :=
  let (t, h) := st
  let ap (op : Op) : (St × List Op) × String :=
    let r := step t op
    ((r.1, op :: h), showErr r.2)
  match words s with
  | ["reset"] => ((init, []), "ok")
  | ["es", n, f, ns] => match n.toNat?, f.toNat?, parseNatList? ns with
    | some n, some f, some ns => ap (.enableSpawn n f ns)
    | _, _, _ => (st, "bad-op")
  | ["ds", n, ns] => match n.toNat?, parseNatList? ns with
    | some n, some ns => ap (.disableSpawn n ns)
    | _, _ => (st, "bad-op")
  | ["ea", n, ns] => match n.toNat?, parseNatList? ns with
    | some n, some ns => ap (.enableApp n ns)
    | _, _ => (st, "bad-op")
  | ["da", n, ns] => match n.toNat?, parseNatList? ns with
    | some n, some ns => ap (.disableApp n ns)
    | _, _ => (st, "bad-op")
  | ["qs", n, p] => match n.toNat?, p.toNat? with
    | some n, some p =>
      let r := getEnabledSpawn t n p
      (st, s!"{showErr r.1} {r.2} {if spawnJustified n p h then 1 else 0}")
    | _, _ => (st, "bad-op")
  | ["qa", n, p] => match n.toNat?, p.toNat? with
    | some n, some p => (st, s!"{showErr (isEnabledApp t n p)} {if appJustified n p h then 1 else 0}")
    | _, _ => (st, "bad-op")
  | ["rs", pf, nf, n, p, ex, env] => match parseFlags? pf, parseFlags? nf, n.toNat?, p.toNat?, parseNatList? env with
    | some pf, some nf, some n, some p, some env => (st, showSpawn (remoteSpawn pf nf t n p (ex == "1") env))
    | _, _, _, _, _ => (st, "bad-op")
  | ["ra", pf, nf, n, p, ex, env] => match parseFlags? pf, parseFlags? nf, n.toNat?, p.toNat?, parseNatList? env with
    | some pf, some nf, some n, some p, some env => (st, showApp (remoteAppStart pf nf t n p (ex == "1") env))
    | _, _, _, _, _ => (st, "bad-op")
  | ["eff", g, fb] => match parseFlags? g, parseFlags? fb with
    | some g, some fb =>
      let f := effFlags g fb
      (st, s!"{if f.enable then 1 else 0}{if f.spawn then 1 else 0}{if f.appStart then 1 else 0}")
    | _, _ => (st, "bad-op")
  | ["wire", g] => match parseFlags? g with
    | some g =>
      let f := wireFlags g
      (st, s!"{if f.enable then 1 else 0}{if f.spawn then 1 else 0}{if f.appStart then 1 else 0}")
    | _ => (st, "bad-op")
  | _ => (st, "bad-op")

def main (h : IO.FS.Stream) : IO Unit := loopState h line (init, [])

end ErgoVerif.Drive.Perm

import ErgoVerif.Drive.Util
import ErgoVerif.Model.Registry
namespace ErgoVerif.Drive.Registry
open ErgoVerif ErgoVerif.Drive ErgoVerif.Registry

/-- `race n`: n claimants, a round-robin schedule of their steps until quiescence → outcome -/
def line (s : String) : String :=
  match words s with
  | ["race", n] => match n.toNat? with
    | some k =>
      let ls := List.replicate k Lbl.newClaim ++ List.replicate k Lbl.cas ++ List.replicate k Lbl.store ++ [Lbl.assign]
      match run step init ls with
      | some c => s!"ok={c.okEver} err={c.err} held={if c.held then 1 else 0}"
      | none => "disabled"
    | none => "bad-op"
  | _ => "bad-op"

def main (h : IO.FS.Stream) : IO Unit := loopPure h line
end ErgoVerif.Drive.Registry

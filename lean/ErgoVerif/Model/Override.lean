/-!
node/process.go: SendWithPriority / CallWithPriority / SendImportant / CallImportant override a field of the process
(`p.priority`, `p.important`) for ONE operation and put the old value back. `ra` = "put back on every path"; the other
shape puts it back only when the inner operation succeeded.
-/
namespace ErgoVerif.Override

structure P where
  priority : Nat
  important : Bool
deriving DecidableEq, Repr

inductive Op
  | plain (ok : Bool)                 -- Send / Call: uses the fields as they are
  | withPriority (v : Nat) (ok : Bool)
  | important (ok : Bool)
deriving DecidableEq, Repr

/-- the priority and the important flag an operation is sent with -/
def sentWith (p : P) : Op → Nat × Bool
  | .plain _ => (p.priority, p.important)
  | .withPriority v _ => (v, p.important)
  | .important _ => (p.priority, true)

/-- the process afterwards -/
def after (ra : Bool) (p : P) : Op → P
  | .plain _ => p
  | .withPriority v ok => if ra || ok then p else { p with priority := v }
  | .important ok => if ra || ok then p else { p with important := true }

/-- a sequence of operations: what each was sent with -/
def trace (ra : Bool) : P → List Op → List (Nat × Bool)
  | _, [] => []
  | p, o :: os => sentWith p o :: trace ra (after ra p o) os

end ErgoVerif.Override

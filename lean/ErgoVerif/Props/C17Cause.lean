import ErgoVerif.Props.C17
/-!
# C17 — "terminate callback invoked exactly once with the causing reason"; unload only when stopped

`afterRuleG gf` is `afterRule` with the position of `a.reason = reason` relative to the "already in stopping -> break"
guard as a parameter (`gf`, regenerated: `Gen.App.causeAfterStoppingGuard`); `unloadOk ul` is the condition under which
ApplicationUnload succeeds (`ul`, regenerated: `Gen.App.unloadOnlyFromLoaded` — CAS(loaded -> 0) — versus "not running").

* `C17_cause_kept`     — once an application is stopping for a cause c, every later member termination, with any
                         reason and in any order, leaves c in place, and the one Terminate of this run receives c
* `C17_cause_overwritten_without_guard` — recording before the guard hands a later member's reason to Terminate
* `C17_unload`         — an unload that succeeds finds no member alive (so the run has ended and Terminate has run)
* `C17_unload_while_stopping_without_cas` — refusing only a *running* application unloads one that is still stopping
-/
namespace ErgoVerif.Props.C17Cause
open ErgoVerif.App ErgoVerif.Props.C17

def afterRuleG (gf : Bool) (a : App) (r : Reason) : App :=
  if gf then afterRule a r
  else if modeRule a.mode r then
    if a.state = .stopping then { a with reason := some r }
    else { a with state := .stopping, reason := some r, exitsSent := a.exitsSent ++ a.group }
  else a

def terminateG (gf : Bool) (a : App) (i : Nat) (r : Reason) : App :=
  if i ∉ a.group then a else finish (afterRuleG gf { a with group := a.group.erase i } r)

def exits (gf : Bool) (a : App) : List (Nat × Reason) → App
  | [] => a
  | e :: es => exits gf (terminateG gf a e.1 e.2) es

theorem terminateG_true (a : App) (i : Nat) (r : Reason) : terminateG true a i r = terminate a i r := by
  simp [terminateG, terminate, afterRuleG]

/-- what stays true of an application that is stopping for cause `c` in run `n` with Terminate entries `t0` so far -/
def Stopping (c : Reason) (n : Nat) (t0 : List (Nat × Reason)) (a : App) : Prop :=
  a.reason = some c ∧ a.run = n ∧
  ((a.state = .stopping ∧ a.termCbs = t0) ∨ (a.state = .loaded ∧ a.group = [] ∧ a.termCbs = t0 ++ [(n, c)]))

theorem terminate_stopping (c : Reason) (n : Nat) (t0 : List (Nat × Reason)) (a : App) (i : Nat) (r : Reason)
    (h : Stopping c n t0 a) : Stopping c n t0 (terminate a i r) := by
  obtain ⟨hr, hn, hs⟩ := h
  unfold terminate
  split
  · exact ⟨hr, hn, hs⟩
  · next hin =>
    rcases hs with ⟨hst, ht⟩ | ⟨_, hg, _⟩
    · have har : afterRule { a with group := a.group.erase i } r = { a with group := a.group.erase i } := by
        unfold afterRule; split
        · simp [hst]
        · rfl
      rw [har]
      unfold finish
      split
      · exact ⟨hr, hn, Or.inl ⟨hst, ht⟩⟩
      · next hge =>
        have hge' : a.group.erase i = [] := Decidable.of_not_not hge
        simp only [hr, Option.getD_some, hst]
        refine ⟨rfl, hn, Or.inr ⟨?_, hge', ?_⟩⟩
        · simp
        · simp [ht, hn]
    · rw [hg] at hin; simp at hin

theorem exits_stopping (c : Reason) (n : Nat) (t0 : List (Nat × Reason)) (es : List (Nat × Reason)) (a : App)
    (h : Stopping c n t0 a) : Stopping c n t0 (exits true a es) := by
  induction es generalizing a with
  | nil => exact h
  | cons e es ih =>
    simp only [exits, terminateG_true]
    exact ih _ (terminate_stopping c n t0 a e.1 e.2 h)

/-- the flag form: with the cause recorded after the guard, an application stopping for cause `c` keeps `c` through any
    sequence of member terminations, and the Terminate callbacks of the run are at most the one entry `(run, c)` -/
theorem C17_cause_kept_full (gf : Bool) (hgf : gf = true) (a : App) (c : Reason)
    (hs : a.state = .stopping) (hr : a.reason = some c) (es : List (Nat × Reason)) :
    (exits gf a es).reason = some c ∧
    ((exits gf a es).termCbs = a.termCbs ∨ (exits gf a es).termCbs = a.termCbs ++ [(a.run, c)]) := by
  subst hgf
  have h := exits_stopping c a.run a.termCbs es a ⟨hr, rfl, Or.inl ⟨hs, rfl⟩⟩
  refine ⟨h.1, ?_⟩
  rcases h.2.2 with ⟨_, ht⟩ | ⟨_, _, ht⟩
  · exact Or.inl ht
  · exact Or.inr ht

theorem C17_code_shape_cause : Gen.App.causeAfterStoppingGuard = true ∧ Gen.App.unloadOnlyFromLoaded = true := by decide

/-- for the code as it is -/
theorem C17_cause_kept (a : App) (c : Reason) (hs : a.state = .stopping) (hr : a.reason = some c)
    (es : List (Nat × Reason)) :
    (exits Gen.App.causeAfterStoppingGuard a es).reason = some c ∧
    ((exits Gen.App.causeAfterStoppingGuard a es).termCbs = a.termCbs ∨
     (exits Gen.App.causeAfterStoppingGuard a es).termCbs = a.termCbs ++ [(a.run, c)]) :=
  C17_cause_kept_full _ C17_code_shape_cause.1 a c hs hr es

/-- recording the reason before the guard: a Transient application stops because member 0 crashed (7); member 1 is
    killed before it obeys; Terminate receives `kill` -/
theorem C17_cause_overwritten_without_guard :
    let a0 := (step true App.init (.start .transient 3 none)).1
    let a := exits false a0 [(0, .crash 7), (1, .kill), (2, .shutdown)]
    a.termCbs = [(1, .kill)] ∧ (exits true a0 [(0, .crash 7), (1, .kill), (2, .shutdown)]).termCbs = [(1, .crash 7)] := by
  decide

/-- ApplicationUnload succeeds: through CAS(loaded -> 0) (`ul`), or whenever the application is not running -/
def unloadOk (ul : Bool) (a : App) : Bool :=
  if ul then decide (a.state = .loaded) else decide (a.state ≠ .running)

theorem C17_unload_full (ul : Bool) (hul : ul = true) (ops : List Op) :
    let a := runOps rr App.init ops
    unloadOk ul a = true → a.state = .loaded ∧ a.group = [] := by
  subst hul
  intro a h
  have hl : a.state = .loaded := by simpa [unloadOk] using h
  exact ⟨hl, C17_loaded_no_members ops hl⟩

/-- for the code as it is: an unload that succeeds finds the application stopped, with no member alive -/
theorem C17_unload (ops : List Op) :
    let a := runOps rr App.init ops
    unloadOk Gen.App.unloadOnlyFromLoaded a = true → a.state = .loaded ∧ a.group = [] :=
  C17_unload_full _ C17_code_shape_cause.2 ops

theorem C17_unload_while_stopping_without_cas :
    let a := runOps true App.init [.start .permanent 2 none, .memberExit 1 (.crash 3)]
    unloadOk false a = true ∧ a.state = .stopping ∧ a.group = [0] ∧ unloadOk true a = false := by
  decide

/-! non-vacuity: a stopping application with a cause exists and is reachable -/
example : (runOps true App.init [.start .permanent 2 none, .memberExit 1 (.crash 3)]).state = .stopping ∧
    (runOps true App.init [.start .permanent 2 none, .memberExit 1 (.crash 3)]).reason = some (.crash 3) := by decide

end ErgoVerif.Props.C17Cause

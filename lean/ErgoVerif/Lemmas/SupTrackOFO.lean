import ErgoVerif.Lemmas.SupLoopOFO
import ErgoVerif.Lemmas.SupLoopSOFO
/-
One-for-one: the state machine keeps track of exactly the children in `Supervisor.children`, as long as
(D26) EnableChild is not issued for a spec whose previous child's exit is unhandled and
(D27) no child is started through the management calls while the supervisor is stopping all children.
-/
namespace ErgoVerif.Sup

theorem mem_mkSet (p : Nat) (l : List Nat) : p ∈ mkSet l ↔ p ∈ l := by
  induction l with
  | nil => simp [mkSet]
  | cons a t ih =>
    simp only [mkSet, List.foldr_cons] at ih ⊢
    rw [mem_sins, ih]; simp

theorem scan_running_mem (name pid : Nat) (l : List ChildSpec) (p : Nat) :
    p ∈ (scan name pid 0 l).running ↔ ∃ c, c ∈ l ∧ hit name pid c = false ∧ c.pid ≠ 0 ∧ c.pid = p := by
  rw [scan_running_eq]
  simp only [List.mem_map, List.mem_filter, Bool.and_eq_true, Bool.not_eq_true', bne_iff_ne, ne_eq]
  constructor
  · rintro ⟨c, ⟨hc, hh, hp⟩, rfl⟩; exact ⟨c, hc, hh, hp, rfl⟩
  · rintro ⟨c, hc, hh, hp, rfl⟩; exact ⟨c, ⟨hc, hh, hp⟩, rfl⟩

theorem scan_spec_mem (name pid : Nat) (l : List ChildSpec) (c' : ChildSpec) :
    c' ∈ (scan name pid 0 l).spec ↔ ∃ c, c ∈ l ∧ c' = if hit name pid c then { c with pid := 0 } else c := by
  rw [scan_spec_eq]
  simp only [List.mem_map]
  constructor
  · rintro ⟨c, hc, rfl⟩; exact ⟨c, hc, rfl⟩
  · rintro ⟨c, hc, rfl⟩; exact ⟨c, hc, rfl⟩

theorem scan_names (name pid : Nat) (l : List ChildSpec) :
    (scan name pid 0 l).spec.map (·.name) = l.map (·.name) := by
  rw [scan_spec_eq, List.map_map]
  apply List.map_congr_left
  intro c _
  simp only [Function.comp]
  split <;> rfl

theorem lookupKid_mem (pid : Nat) (kids : List (Nat × Nat)) (h : pid ∈ keys kids) : (pid, lookupKid pid kids) ∈ kids := by
  induction kids with
  | nil => simp [keys] at h
  | cons a t ih =>
    obtain ⟨p, n⟩ := a
    simp only [lookupKid]
    split
    · rename_i hp; subst hp; simp
    · rename_i hp
      rw [mem_keys_cons] at h
      rcases h with h | h
      · exact absurd h.symm hp
      · exact List.mem_cons_of_mem _ (ih h)

/-- the tracking invariant of supOFO relative to `Supervisor.children` -/
structure OFO.TInv (m : OFO) (kids : List (Nat × Nat)) : Prop where
  names : (m.spec.map (·.name)).Nodup
  nz : ∀ c, c ∈ m.spec → c.name ≠ 0
  pinj : ∀ c1 c2, c1 ∈ m.spec → c2 ∈ m.spec → c1.pid = c2.pid → c1.pid ≠ 0 → c1 = c2
  normal : m.shutdown = false →
    (∀ p, p ∈ keys kids ↔ (p ≠ 0 ∧ ∃ c, c ∈ m.spec ∧ c.pid = p)) ∧
    (∀ p n, (p, n) ∈ kids → ∃ c, c ∈ m.spec ∧ c.name = n ∧ c.pid = p)
  shut : m.shutdown = true → (∀ p, p ∈ m.wait ↔ p ∈ keys kids) ∧ m.shutdownReason ≠ none

theorem spec_unique {l : List ChildSpec} (h : (l.map (·.name)).Nodup) {c1 c2 : ChildSpec}
    (h1 : c1 ∈ l) (h2 : c2 ∈ l) (hn : c1.name = c2.name) : c1 = c2 := by
  induction l with
  | nil => simp at h1
  | cons a t ih =>
    simp only [List.map_cons, List.nodup_cons, List.mem_map, not_exists, not_and] at h
    rcases List.mem_cons.mp h1 with rfl | h1'
    · rcases List.mem_cons.mp h2 with rfl | h2'
      · rfl
      · exact absurd hn.symm (h.1 c2 h2')
    · rcases List.mem_cons.mp h2 with rfl | h2'
      · exact absurd hn (h.1 c1 h1')
      · exact ih h.2 h1' h2'

def OFO.Live (m : OFO) (kids : List (Nat × Nat)) : Prop := m.shutdown = true → ∃ p, p ∈ keys kids

/-- what an action must satisfy so that carrying it out keeps the tracking invariant -/
def OFO.TGood (m : OFO) (kids : List (Nat × Nat)) (a : Action) : Prop :=
  match a.act with
  | .nothing => OFO.Live m kids
  | .start => m.shutdown = false ∧ OFO.ValidStart m a ∧ ∃ c : ChildSpec, m.spec[a.spec.i]? = some c ∧ c.pid = 0
  | .terminateChildren =>
      (a.terminate.isEmpty → ∀ e, a.reason = some e → ((m.shutdown = true → m.shutdownReason = some e) ∧ ∀ p, p ∉ keys kids)) ∧
      ((a.terminate.isEmpty = false ∨ a.reason = none) → OFO.Live m kids)
  | .terminate => a.reason ≠ none ∧ ∀ e, a.reason = some e → ((m.shutdown = true → m.shutdownReason = some e) ∧ ∀ p, p ∉ keys kids)

/-- the dead child's exit: the scan hits exactly the spec the child belongs to -/
theorem OFO.hit_iff (m : OFO) (kids : List (Nat × Nat)) (h : OFO.TInv m kids) (hsd : m.shutdown = false)
    (pid n : Nat) (hk : (pid, n) ∈ kids) (c : ChildSpec) (hc : c ∈ m.spec) :
    hit n pid c = true ↔ (c.name = n ∧ c.pid = pid) := by
  have ⟨hN, hN2⟩ := h.normal hsd
  obtain ⟨c0, hc0, hn0, hp0⟩ := hN2 pid n hk
  have hpid0 : pid ≠ 0 := ((hN pid).mp (by simp [keys]; exact ⟨n, hk⟩)).1
  simp only [hit, Bool.or_eq_true, beq_iff_eq]
  constructor
  · rintro (hn | hp)
    · have := spec_unique h.names hc hc0 (hn.trans hn0.symm)
      subst this; exact ⟨hn0, hp0⟩
    · have := h.pinj c c0 hc hc0 (hp.trans hp0.symm) (by rw [hp]; exact hpid0)
      subst this; exact ⟨hn0, hp0⟩
  · rintro ⟨hn, _⟩; exact Or.inl hn

/-- after the scan for a known child: the tracking relations hold again for `kids` without the dead pid -/
theorem OFO.scan_track (m : OFO) (kids : List (Nat × Nat)) (h : OFO.TInv m kids) (hsd : m.shutdown = false)
    (pid n : Nat) (hk : (pid, n) ∈ kids) :
    let sc := scan n pid 0 m.spec
    let kids' := kids.filter (fun x => x.1 ≠ pid)
    (∀ p, p ∈ keys kids' ↔ (p ≠ 0 ∧ ∃ c, c ∈ sc.spec ∧ c.pid = p)) ∧
    (∀ p n', (p, n') ∈ kids' → ∃ c, c ∈ sc.spec ∧ c.name = n' ∧ c.pid = p) ∧
    (∀ p, p ∈ sc.running ↔ p ∈ keys kids') ∧
    (∀ c1 c2, c1 ∈ sc.spec → c2 ∈ sc.spec → c1.pid = c2.pid → c1.pid ≠ 0 → c1 = c2) := by
  intro sc kids'
  have ⟨hN, hN2⟩ := h.normal hsd
  have hhit := OFO.hit_iff m kids h hsd pid n hk
  have hpid0 : pid ≠ 0 := ((hN pid).mp (by simp [keys]; exact ⟨n, hk⟩)).1
  -- a spec that is not hit and has a pid: its pid differs from the dead one
  have hnh : ∀ c, c ∈ m.spec → hit n pid c = false → c.pid ≠ pid := by
    intro c hc hh hp
    simp only [hit, Bool.or_eq_false_iff, beq_eq_false_iff_ne] at hh
    exact hh.2 hp
  have hA : ∀ p, p ∈ keys kids' ↔ (p ≠ 0 ∧ ∃ c, c ∈ sc.spec ∧ c.pid = p) := by
    intro p
    simp only [kids', mem_keys_filter_ne, hN p]
    constructor
    · rintro ⟨⟨hp0, c, hc, hcp⟩, hne⟩
      refine ⟨hp0, c, ?_, hcp⟩
      rw [scan_spec_mem]
      refine ⟨c, hc, ?_⟩
      have : hit n pid c = false := by
        cases hh : hit n pid c with
        | false => rfl
        | true => exact absurd ((hhit c hc).mp hh).2 (by rw [hcp]; exact hne)
      simp [this]
    · rintro ⟨hp0, c', hc', hcp⟩
      rw [scan_spec_mem] at hc'
      obtain ⟨c, hc, rfl⟩ := hc'
      cases hh : hit n pid c with
      | true => simp [hh] at hcp; exact absurd hcp.symm hp0
      | false =>
        simp [hh] at hcp
        exact ⟨⟨hp0, c, hc, hcp⟩, by rw [← hcp]; exact hnh c hc hh⟩
  refine ⟨hA, ?_, ?_, ?_⟩
  · intro p n' hpn
    have hmem := List.mem_filter.mp hpn
    have hne : p ≠ pid := by simpa using hmem.2
    obtain ⟨c, hc, hcn, hcp⟩ := hN2 p n' hmem.1
    refine ⟨c, ?_, hcn, hcp⟩
    rw [scan_spec_mem]
    refine ⟨c, hc, ?_⟩
    have : hit n pid c = false := by
      cases hh : hit n pid c with
      | false => rfl
      | true => exact absurd ((hhit c hc).mp hh).2 (by rw [hcp]; exact hne)
    simp [this]
  · intro p
    rw [scan_running_mem, hA p]
    constructor
    · rintro ⟨c, hc, hh, hp0, rfl⟩
      refine ⟨hp0, c, ?_, rfl⟩
      rw [scan_spec_mem]; exact ⟨c, hc, by simp [hh]⟩
    · rintro ⟨hp0, c', hc', hcp⟩
      rw [scan_spec_mem] at hc'
      obtain ⟨c, hc, rfl⟩ := hc'
      cases hh : hit n pid c with
      | true => simp [hh] at hcp; exact absurd hcp.symm hp0
      | false => simp [hh] at hcp; exact ⟨c, hc, hh, by rw [hcp]; exact hp0, hcp⟩
  · intro c1 c2 h1 h2 he hne
    rw [scan_spec_mem] at h1 h2
    obtain ⟨d1, hd1, rfl⟩ := h1
    obtain ⟨d2, hd2, rfl⟩ := h2
    cases hh1 : hit n pid d1 with
    | true => simp [hh1] at hne
    | false =>
      cases hh2 : hit n pid d2 with
      | true => simp [hh1, hh2] at he hne; exact absurd he hne
      | false =>
        simp [hh1, hh2] at he hne ⊢
        exact h.pinj d1 d2 hd1 hd2 he hne


theorem mem_runningPids (l : List ChildSpec) (p : Nat) : p ∈ runningPids l ↔ (p ≠ 0 ∧ ∃ c, c ∈ l ∧ c.pid = p) := by
  simp only [runningPids, List.mem_map, List.mem_filter, ne_eq, decide_eq_true_eq]
  constructor
  · rintro ⟨c, ⟨hc, hp⟩, rfl⟩; exact ⟨hp, c, hc, rfl⟩
  · rintro ⟨hp, c, hc, rfl⟩; exact ⟨c, ⟨hc, hp⟩, rfl⟩

section known
variable (m : OFO) (kids : List (Nat × Nat)) (h : OFO.TInv m kids) (hsd : m.shutdown = false)
  (pid n : Nat) (hk : (pid, n) ∈ kids)
include h hsd hk

theorem OFO.tinv_normal_of (m' : OFO) (hs : m'.spec = (scan n pid 0 m.spec).spec) (hsd' : m'.shutdown = false) :
    OFO.TInv m' (kids.filter (fun x => x.1 ≠ pid)) := by
  have ⟨hA, hB, _, hD⟩ := OFO.scan_track m kids h hsd pid n hk
  constructor
  · rw [hs, scan_names]; exact h.names
  · intro c hc
    rw [hs, scan_spec_mem] at hc
    obtain ⟨c0, hc0, rfl⟩ := hc
    have := h.nz c0 hc0
    split <;> exact this
  · rw [hs]; exact hD
  · intro _; rw [hs]; exact ⟨hA, hB⟩
  · intro hx; rw [hsd'] at hx; simp at hx

theorem OFO.tinv_shut_of (m' : OFO) (hs : m'.spec = (scan n pid 0 m.spec).spec) (hsd' : m'.shutdown = true)
    (hw : m'.wait = mkSet (scan n pid 0 m.spec).running) (hr : m'.shutdownReason ≠ none) :
    OFO.TInv m' (kids.filter (fun x => x.1 ≠ pid)) := by
  have ⟨_, _, hC, hD⟩ := OFO.scan_track m kids h hsd pid n hk
  constructor
  · rw [hs, scan_names]; exact h.names
  · intro c hc
    rw [hs, scan_spec_mem] at hc
    obtain ⟨c0, hc0, rfl⟩ := hc
    have := h.nz c0 hc0
    split <;> exact this
  · rw [hs]; exact hD
  · intro hx; rw [hsd'] at hx; simp at hx
  · intro _
    refine ⟨?_, hr⟩
    intro p; rw [hw, mem_mkSet]; exact hC p

end known


section known2
variable (m : OFO) (kids : List (Nat × Nat)) (h : OFO.TInv m kids) (hsd : m.shutdown = false)
  (pid n : Nat) (hk : (pid, n) ∈ kids)
include h hsd hk

/-- the four tails of childTerminated, started from a state whose spec is the scanned one -/
theorem OFO.stopAll_track (s0 : OFO) (hs : s0.spec = (scan n pid 0 m.spec).spec) (hsd0 : s0.shutdown = false) (r : Reason) :
    OFO.TInv (OFO.stopAll s0 (scan n pid 0 m.spec) r).1 (kids.filter (fun x => x.1 ≠ pid)) ∧
    ∃ a, (OFO.stopAll s0 (scan n pid 0 m.spec) r).2 = .ok a ∧ a.act ≠ .start ∧
      OFO.TGood (OFO.stopAll s0 (scan n pid 0 m.spec) r).1 (kids.filter (fun x => x.1 ≠ pid)) a := by
  have ⟨_, _, hC, _⟩ := OFO.scan_track m kids h hsd pid n hk
  unfold OFO.stopAll
  split
  · rename_i hlen
    refine ⟨OFO.tinv_normal_of m kids h hsd pid n hk s0 hs hsd0, _, rfl, by simp, ?_⟩
    simp only [OFO.TGood]
    refine ⟨by simp, ?_⟩
    intro e he
    refine ⟨fun hx => by rw [hsd0] at hx; simp at hx, ?_⟩
    intro p hp
    have := (hC p).mpr hp
    have hnil : (scan n pid 0 m.spec).running = [] := List.length_eq_zero_iff.mp hlen
    rw [hnil] at this; simp at this
  · rename_i hlen
    refine ⟨OFO.tinv_shut_of m kids h hsd pid n hk _ hs rfl rfl (by simp), _, rfl, by simp, ?_⟩
    simp only [OFO.TGood]
    constructor
    · intro hemp
      have : (scan n pid 0 m.spec).running = [] := List.isEmpty_iff.mp hemp
      rw [this] at hlen; simp at hlen
    · intro _ _
      cases hrun : (scan n pid 0 m.spec).running with
      | nil => rw [hrun] at hlen; simp at hlen
      | cons a t => exact ⟨a, (hC a).mp (by rw [hrun]; simp)⟩

theorem OFO.autoShutdown_track (s0 : OFO) (hs : s0.spec = (scan n pid 0 m.spec).spec) (hsd0 : s0.shutdown = false) (r : Reason) :
    OFO.TInv (OFO.autoShutdown s0 (scan n pid 0 m.spec) r).1 (kids.filter (fun x => x.1 ≠ pid)) ∧
    ∃ a, (OFO.autoShutdown s0 (scan n pid 0 m.spec) r).2 = .ok a ∧ a.act ≠ .start ∧
      OFO.TGood (OFO.autoShutdown s0 (scan n pid 0 m.spec) r).1 (kids.filter (fun x => x.1 ≠ pid)) a := by
  have ⟨_, _, hC, _⟩ := OFO.scan_track m kids h hsd pid n hk
  unfold OFO.autoShutdown
  split
  · rename_i hlen
    refine ⟨OFO.tinv_normal_of m kids h hsd pid n hk s0 hs hsd0, _, rfl, by simp, ?_⟩
    simp only [OFO.TGood]
    refine ⟨by simp, ?_⟩
    intro e he
    refine ⟨fun hx => by rw [hsd0] at hx; simp at hx, ?_⟩
    intro p hp
    have := (hC p).mpr hp
    have hnil : (scan n pid 0 m.spec).running = [] := List.length_eq_zero_iff.mp hlen.1
    rw [hnil] at this; simp at this
  · refine ⟨OFO.tinv_normal_of m kids h hsd pid n hk s0 hs hsd0, _, rfl, by simp, ?_⟩
    simp only [OFO.TGood, OFO.Live]
    intro hx; rw [hsd0] at hx; simp at hx

theorem OFO.quietStep_track (s0 : OFO) (hs : s0.spec = (scan n pid 0 m.spec).spec) (hsd0 : s0.shutdown = false)
    (sp : ChildSpec) (r : Reason) :
    OFO.TInv (OFO.quietStep s0 (scan n pid 0 m.spec) sp r).1 (kids.filter (fun x => x.1 ≠ pid)) ∧
    ∃ a, (OFO.quietStep s0 (scan n pid 0 m.spec) sp r).2 = .ok a ∧ a.act ≠ .start ∧
      OFO.TGood (OFO.quietStep s0 (scan n pid 0 m.spec) sp r).1 (kids.filter (fun x => x.1 ≠ pid)) a := by
  unfold OFO.quietStep
  split
  · exact OFO.stopAll_track m kids h hsd pid n hk s0 hs hsd0 r
  · exact OFO.autoShutdown_track m kids h hsd pid n hk s0 hs hsd0 r

/-- restart or give up -/
theorem OFO.intensityStep_track (s0 : OFO) (hs : s0.spec = (scan n pid 0 m.spec).spec) (hsd0 : s0.shutdown = false)
    (sp : ChildSpec) (now : Int) :
    OFO.TInv (OFO.intensityStep s0 (scan n pid 0 m.spec) sp now).1 (kids.filter (fun x => x.1 ≠ pid)) ∧
    ∃ a, (OFO.intensityStep s0 (scan n pid 0 m.spec) sp now).2 = .ok a ∧
      (a.act = .start → a.spec = sp ∧ (OFO.intensityStep s0 (scan n pid 0 m.spec) sp now).1.shutdown = false ∧
        (OFO.intensityStep s0 (scan n pid 0 m.spec) sp now).1.spec = (scan n pid 0 m.spec).spec) ∧
      (a.act ≠ .start → OFO.TGood (OFO.intensityStep s0 (scan n pid 0 m.spec) sp now).1 (kids.filter (fun x => x.1 ≠ pid)) a) := by
  have ⟨hA, _, hC, _⟩ := OFO.scan_track m kids h hsd pid n hk
  unfold OFO.intensityStep
  simp only
  split
  · refine ⟨OFO.tinv_normal_of m kids h hsd pid n hk _ hs hsd0, _, rfl, ?_, by simp⟩
    intro _; exact ⟨rfl, hsd0, hs⟩
  · refine ⟨OFO.tinv_shut_of m kids h hsd pid n hk _ hs rfl rfl (by simp), _, rfl, by simp, ?_⟩
    intro _
    simp only [OFO.TGood]
    constructor
    · intro hemp e he
      refine ⟨fun _ => by simpa using he, ?_⟩
      intro p hp
      have hnil : runningPids s0.spec = [] := List.isEmpty_iff.mp hemp
      have : p ∈ runningPids s0.spec := by
        rw [mem_runningPids, hs]; exact (hA p).mp hp
      rw [hnil] at this; simp at this
    · intro hne _
      rcases hne with hne | hne
      · cases hrp : runningPids s0.spec with
        | nil => rw [hrp] at hne; simp at hne
        | cons a t =>
          have : a ∈ runningPids s0.spec := by rw [hrp]; simp
          rw [mem_runningPids, hs] at this
          exact ⟨a, (hA a).mpr this⟩
      · simp at hne

end known2


/-- childTerminated for the exit of a known child, in normal operation -/
theorem OFO.ct_track (m : OFO) (kids : List (Nat × Nat)) (h : OFO.TInv m kids) (hwf : OFO.WF m) (hsd : m.shutdown = false)
    (pid n : Nat) (hk : (pid, n) ∈ kids) (r : Reason) (now : Int) :
    OFO.TInv (m.childTerminated n pid r now).1 (kids.filter (fun x => x.1 ≠ pid)) ∧
    ∃ a, (m.childTerminated n pid r now).2 = .ok a ∧
      OFO.TGood (m.childTerminated n pid r now).1 (kids.filter (fun x => x.1 ≠ pid)) a := by
  obtain ⟨c0, hc0, hn0, hp0⟩ := (h.normal hsd).2 pid n hk
  have hhit0 : hit n pid c0 = true := (OFO.hit_iff m kids h hsd pid n hk c0 hc0).mpr ⟨hn0, hp0⟩
  cases hf : (scan n pid 0 m.spec).found with
  | none => exact absurd hhit0 (by rw [scan_found_none n pid 0 m.spec hf c0 hc0]; simp)
  | some x =>
    obtain ⟨j, sp⟩ := x
    obtain ⟨_, d0, hd0, hhit, hsp⟩ := scan_found_some n pid 0 m.spec j sp hf
    simp only [Nat.sub_zero] at hd0
    -- the start action for `sp` is valid in any state whose spec is the scanned one
    have hstart : ∀ s1 : OFO, s1.spec = (scan n pid 0 m.spec).spec → s1.shutdown = false →
        OFO.TGood s1 (kids.filter (fun x => x.1 ≠ pid)) { act := .start, spec := sp } := by
      intro s1 hs1 hsd1
      simp only [OFO.TGood]
      have hij : sp.i = j := by rw [hsp]; exact hwf.idx j d0 hd0
      have hat : s1.spec[sp.i]? = some ({ d0 with pid := 0 } : ChildSpec) := by
        rw [hij, hs1, scan_spec_eq]
        simp [List.getElem?_map, hd0, hhit]
      exact ⟨hsd1, ⟨_, hat, by rw [hsp]⟩, _, hat, rfl⟩
    unfold OFO.childTerminated
    simp only [hsd, Bool.false_eq_true, if_false, hf]
    have hfin : ∀ (o : OFO × Res),
        (OFO.TInv o.1 (kids.filter (fun x => x.1 ≠ pid)) ∧ ∃ a, o.2 = .ok a ∧ a.act ≠ .start ∧ OFO.TGood o.1 (kids.filter (fun x => x.1 ≠ pid)) a) →
        OFO.TInv o.1 (kids.filter (fun x => x.1 ≠ pid)) ∧ ∃ a, o.2 = .ok a ∧ OFO.TGood o.1 (kids.filter (fun x => x.1 ≠ pid)) a := by
      rintro o ⟨h1, a, h2, _, h3⟩; exact ⟨h1, a, h2, h3⟩
    have hint : ∀ (s0 : OFO), s0.spec = (scan n pid 0 m.spec).spec → s0.shutdown = false →
        OFO.TInv (OFO.intensityStep s0 (scan n pid 0 m.spec) sp now).1 (kids.filter (fun x => x.1 ≠ pid)) ∧
        ∃ a, (OFO.intensityStep s0 (scan n pid 0 m.spec) sp now).2 = .ok a ∧
          OFO.TGood (OFO.intensityStep s0 (scan n pid 0 m.spec) sp now).1 (kids.filter (fun x => x.1 ≠ pid)) a := by
      intro s0 hs0 hsd0
      obtain ⟨hT, a, ha, hst, hnon⟩ := OFO.intensityStep_track m kids h hsd pid n hk s0 hs0 hsd0 sp now
      refine ⟨hT, a, ha, ?_⟩
      by_cases hact : a.act = .start
      · obtain ⟨hsp', hsd', hs'⟩ := hst hact
        have : a = { act := .start, spec := sp } := by
          -- the only start answer of intensityStep is exactly this action
          revert ha
          unfold OFO.intensityStep
          simp only
          split
          · intro ha; simp at ha; exact ha.symm
          · intro ha; simp at ha; subst ha; simp at hact
        rw [this]
        exact hstart _ hs' hsd'
      · exact hnon hact
    split
    · refine hfin _ (OFO.autoShutdown_track m kids h hsd pid n hk _ ?_ ?_ r) <;> rfl
    · split
      · refine hfin _ (OFO.quietStep_track m kids h hsd pid n hk _ ?_ ?_ sp r) <;> rfl
      · split
        · refine hfin _ (OFO.quietStep_track m kids h hsd pid n hk _ ?_ ?_ sp r) <;> rfl
        · exact hint _ rfl rfl
      · exact hint _ rfl rfl

/-- childTerminated while shutting down (any pid) -/
theorem OFO.ct_track_shut (m : OFO) (kids : List (Nat × Nat)) (h : OFO.TInv m kids) (hsd : m.shutdown = true)
    (pid n : Nat) (r : Reason) (now : Int) :
    OFO.TInv (m.childTerminated n pid r now).1 (kids.filter (fun x => x.1 ≠ pid)) ∧
    ∃ a, (m.childTerminated n pid r now).2 = .ok a ∧
      OFO.TGood (m.childTerminated n pid r now).1 (kids.filter (fun x => x.1 ≠ pid)) a := by
  have ⟨h1, h2⟩ := h.shut hsd
  have hT : OFO.TInv { m with wait := sdel pid m.wait, shutdown := true } (kids.filter (fun x => x.1 ≠ pid)) := by
    constructor
    · exact h.names
    · exact h.nz
    · exact h.pinj
    · intro hx; simp at hx
    · intro _
      refine ⟨?_, h2⟩
      intro p; simp only [mem_sdel, mem_keys_filter_ne, h1 p]
  unfold OFO.childTerminated
  simp only [hsd, if_true]
  split
  · rename_i hlen
    refine ⟨hT, _, rfl, ?_⟩
    simp only [OFO.TGood, OFO.Live]
    refine ⟨by intro _ e he; simp at he, ?_⟩
    intro _ _
    cases hw : sdel pid m.wait with
    | nil => rw [hw] at hlen; simp at hlen
    | cons a t =>
      have : a ∈ sdel pid m.wait := by rw [hw]; simp
      exact ⟨a, ((hT.shut rfl).1 a).mp this⟩
  · rename_i hlen
    refine ⟨hT, _, rfl, ?_⟩
    simp only [OFO.TGood]
    refine ⟨h2, ?_⟩
    intro e he
    refine ⟨fun _ => he, ?_⟩
    intro p hp
    have := ((hT.shut rfl).1 p).mpr hp
    have hnil : sdel pid m.wait = [] := by
      cases hw : sdel pid m.wait with
      | nil => rfl
      | cons a t => rw [hw] at hlen; simp at hlen
    simp only at this
    rw [hnil] at this; simp at this

end ErgoVerif.Sup

import ErgoVerif.Lemmas.Meta
import ErgoVerif.Generated.Meta
/-!
# C01 / C05 — meta-processes

`Model/Meta.lean`: the meta state-word protocol. The `Start` callback runs concurrently with the mailbox handler by
design (it is the meta-process's own blocking loop) and is not one of the callbacks the property lists; the statements
below are about the mailbox handlers (HandleMessage / HandleCall / HandleInspect) and `Terminate`. They are stated for
the code shape regenerated from node/meta.go (`Gen.Meta.startHandsOff`): a `Start` that is over while a handler is
inside a callback leaves the termination to the handler goroutine.
-/
namespace ErgoVerif.Props.C01Meta
open ErgoVerif ErgoVerif.Meta

/-- the code as it is (regenerated) -/
abbrev ho : Bool := ErgoVerif.Gen.Meta.startHandsOff

theorem ho_true : ho = true := by decide

/-- reachability for the code as it is -/
theorem reach_inv' {c : Cfg} (h : Reach ho c) : Meta.Inv c := by
  have h' : Reach true c := by rw [← ho_true]; exact h
  exact reach_inv h'

/-- **One mailbox handler at a time**: for any number of senders and any interleaving, at most one goroutine is
inside the handler loop of a meta-process (and at most one holds the right to start one). -/
theorem C01_meta_handlers_serial (c : Cfg) (h : Reach ho c) : c.rb ≤ 1 ∧ c.h1 + c.r0 + c.rb + c.r3 + c.rE ≤ 1 := by
  have hi := reach_inv' h
  unfold Meta.Inv at hi
  omega

/-- **Terminate at most once** (C05): the swap to `terminated` elects a single finaliser among the start goroutine
and the handler goroutine. -/
theorem C05_meta_terminate_once (c : Cfg) (h : Reach ho c) : c.terms ≤ 1 ∧ c.tmS + c.tmH ≤ c.terms := by
  have hi := reach_inv' h
  unfold Meta.Inv at hi
  omega

/-- after Terminate has started no handler is started any more: the word never leaves `terminated` -/
theorem C05_meta_final (c : Cfg) (h : Reach ho c) (ht : c.terms = 1) : c.st = .terminated := by
  have hi := reach_inv' h
  unfold Meta.Inv at hi
  obtain ⟨st, a0, a1, a2, s1, h0, h1, r0, rb, r3, r4, r5, rE, tmS, tmH, mail, handled, terms, pend⟩ := c
  cases st <;> simp at hi ht ⊢ <;> omega

/-- the full statement for meta-processes: Terminate never overlaps a mailbox handler (nor a goroutine that holds the
right to run one), whoever runs it -/
def C01_meta_full (b : Bool) : Prop := ∀ c, Reach b c → c.rb + c.tmS + c.tmH ≤ 1 ∧ (c.tmS + c.tmH ≥ 1 → c.h1 + c.r0 + c.rb + c.r3 + c.rE = 0)

/-- **Terminate does not overlap a handler, for the code as it is** (C01), **and starts only after the last handler has
finished** (C05): for any number of senders, any interleaving, and whenever `Start` returns. -/
theorem C01_meta : C01_meta_full ho := by
  intro c h
  have hi := reach_inv' h
  unfold Meta.Inv at hi
  omega

/-- the code before the repair of D22 (whoever swaps first runs Terminate at once): when `Start` returned while a
handler was executing, the start goroutine ran `Terminate` concurrently with the handler. Kept as a regression
statement. -/
theorem C01_meta_D22_before_fix : ¬ C01_meta_full false := by
  intro h
  have := (h _ ⟨[.storeSleep, .newSender, .push, .cas, .go, .runner, .pop, .startRet, .swapStart], rfl⟩).1
  revert this; decide

/-- when `Start` is over while a handler is inside a callback, the termination is not lost: it is pending, the handler
goroutine exists, and it is the only one that will run it -/
theorem C05_meta_handoff_pending (c : Cfg) (h : Reach ho c) (hp : c.pend = 1) :
    c.st = .terminated ∧ c.terms = 0 ∧ c.h1 + c.r0 + c.rb + c.r3 + c.rE = 1 := by
  have hi := reach_inv' h
  unfold Meta.Inv at hi
  obtain ⟨st, a0, a1, a2, s1, h0, h1, r0, rb, r3, r4, r5, rE, tmS, tmH, mail, handled, terms, pend⟩ := c
  cases st <;> simp at hi hp ⊢ <;> omega

/-- **No lost wake-up for the meta mailbox**: when nothing can move and the meta-process sleeps, its mailbox is
empty. -/
theorem C02_meta_no_lost_wakeup (c : Cfg) (h : Reach ho c) (hs : c.st = .sleep)
    (hq : c.h0 = 0 ∧ c.r4 = 0 ∧ c.r5 = 0) : c.mail = 0 := by
  have hi := reach_inv' h
  unfold Meta.Inv at hi
  have := hi.2.2.2.2.2.2.2.2.2.2.2.2 hs
  omega

/-- non-vacuity -/
example : ∃ c, Reach ho c ∧ c.rb = 1 ∧ c.a1 = 1 ∧ c.handled = 1 :=
  ⟨_, ⟨[.storeSleep, .newSender, .push, .cas, .cas, .go, .runner, .pop], rfl⟩, by decide⟩

/-- the hand-off at work: Start returns while a handler is in a callback; the handler goroutine runs Terminate when its
loop is over -/
example : ∃ c, Reach ho c ∧ c.tmH = 1 ∧ c.tmS = 0 ∧ c.terms = 1 ∧ c.rb = 0 :=
  ⟨_, ⟨[.storeSleep, .newSender, .push, .cas, .go, .runner, .pop, .startRet, .swapStart, .loopEnd, .casSleep], rfl⟩, by decide⟩

end ErgoVerif.Props.C01Meta

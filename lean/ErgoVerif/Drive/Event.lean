import ErgoVerif.Drive.Util
import ErgoVerif.Model.Event
import ErgoVerif.Generated.Event
namespace ErgoVerif.Drive.Event
open ErgoVerif.Drive ErgoVerif.Event

def sortNat (l : List Nat) : List Nat := l.mergeSort (fun a b => decide (a ≤ b))

def showNote : Option Note → String
  | none => "-" | some .start => "start" | some .stop => "stop"

def showOut : Out → String
  | .ok => "ok" | .errOwner => "owner" | .errUnknown => "unknown" | .errExist => "exist" | .errNoRel => "norel"
  | .delivered to => s!"delivered {showNatList (sortNat to)}"
  | .subscribed snap n => s!"subscribed {showNatList snap} {showNote n}"
  | .unsubscribed n => s!"unsubscribed {showNote n}"
  | .gone ex dn => s!"gone exits={showNatList (sortNat ex)} downs={showNatList (sortNat dn)}"

def line (e : Ev) (ln : String) : Ev × String :=
  let fin := fun (r : Ev × Out) => (r.1, showOut r.2)
  match words ln with
  | ["reset"] => (Ev.init, "ok")
  | ["reg", t, n, c] => match t.toNat?, c.toNat? with
    | some t, some c => fin (step ErgoVerif.Gen.Event.terminationUpdatesCounter ErgoVerif.Gen.Event.publishDedupes e (.register t (n = "1") c))
    | _, _ => (e, "bad-op")
  | ["pub", t, m] => match t.toNat?, m.toNat? with
    | some t, some m => fin (step ErgoVerif.Gen.Event.terminationUpdatesCounter ErgoVerif.Gen.Event.publishDedupes e (.publish t m))
    | _, _ => (e, "bad-op")
  | ["sub", c, k] => match c.toNat? with
    | some c => fin (step ErgoVerif.Gen.Event.terminationUpdatesCounter ErgoVerif.Gen.Event.publishDedupes e (.sub c (k = "m")))
    | none => (e, "bad-op")
  | ["unsub", c, k] => match c.toNat? with
    | some c => fin (step ErgoVerif.Gen.Event.terminationUpdatesCounter ErgoVerif.Gen.Event.publishDedupes e (.unsub c (k = "m")))
    | none => (e, "bad-op")
  | ["die", c] => match c.toNat? with
    | some c => fin (step ErgoVerif.Gen.Event.terminationUpdatesCounter ErgoVerif.Gen.Event.publishDedupes e (.consumerDies c))
    | none => (e, "bad-op")
  | ["unreg"] => fin (step ErgoVerif.Gen.Event.terminationUpdatesCounter ErgoVerif.Gen.Event.publishDedupes e .unregister)
  | _ => (e, "bad-op")

def main (h : IO.FS.Stream) : IO Unit := loopState h line Ev.init
end ErgoVerif.Drive.Event

/-
Application dependencies (node/node.go ApplicationStart, 1249-1283): before an application is started every
application listed in `spec.Depends.Applications` is started, in list order, by a recursive call; an unknown
dependency or one whose start fails aborts with ErrApplicationDepends, a dependency that is running already is
skipped (ErrApplicationRunning from the recursive call is not an error). Only then `app.start` runs.

Applications are numbers; the static description says which are loaded, what they depend on and whose own start
fails (a member's Init returns an error). The recursion carries fuel: the harness drives acyclic graphs with
fuel = number of applications + 1 (the real code recurses without bound on a dependency cycle — not modelled).
-/
namespace ErgoVerif.AppDeps

structure Spec where
  loaded : List Bool
  deps : List (List Nat)
  fails : List Bool
deriving Repr

inductive Res | ok | running | unknown | depends | failed
deriving DecidableEq, Repr

structure St where
  running : List Nat      -- applications in state running
  order : List Nat        -- Start callbacks, in the order they ran
deriving Repr

def Spec.isLoaded (s : Spec) (a : Nat) : Bool := s.loaded.getD a false
def Spec.depsOf (s : Spec) (a : Nat) : List Nat := s.deps.getD a []
def Spec.failsAt (s : Spec) (a : Nat) : Bool := s.fails.getD a false

/-- the loop over the dependencies: `f` is the recursive ApplicationStart -/
def startDeps (f : St → Nat → St × Res) (st : St) : List Nat → St × Bool
  | [] => (st, true)
  | d :: ds =>
    let r := f st d
    if r.2 = .ok ∨ r.2 = .running then startDeps f r.1 ds else (r.1, false)

/-- app.start for an application whose dependencies were dealt with -/
def startOwn (sp : Spec) (st : St) (a : Nat) : St × Res :=
  if a ∈ st.running then (st, .running)
  else if sp.failsAt a then (st, .failed)
  else ({ running := a :: st.running, order := st.order ++ [a] }, .ok)

def start (sp : Spec) : Nat → St → Nat → St × Res
  | 0, st, _ => (st, .depends)
  | fuel + 1, st, a =>
    if !sp.isLoaded a then (st, .unknown)
    else
      let r := startDeps (start sp fuel) st (sp.depsOf a)
      if r.2 then startOwn sp r.1 a else (r.1, .depends)

end ErgoVerif.AppDeps

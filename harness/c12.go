package main

// C12 — remote delivery integrity, wire-protocol block.
//
//  part S (stream):   real serve()/read() (verif export VerifServe) on scripted chunk sequences vs
//                     Model/Stream `readAll` on the very same chunks (the sizes every Read returned);
//                     oracle: a stream of well-formed frames comes out as exactly these frames.
//  part E (end-to-end, K5): two real connections through re-cutting relays; every message sent
//                     through the public API is routed exactly once with the true sender, addressed
//                     target, priority, reference and an equal payload; refused messages leave no
//                     trace; important delivery reports exactly the remote result.
//                     Wire tie: every frame seen on the wire is byte-for-byte what Model/Frame
//                     `encode` produces from the GENERATED layout table of its kind, and the
//                     compression envelope is what Model/Envelope predicts.
//  part H (handler):  real handleRecvQueue (VerifHandleFrame) on valid and mutated frames vs
//                     Model/Frame `parse` (class ok/dropped/recovered and the extracted fields).

import (
	"bytes"
	"compress/gzip"
	"compress/lzw"
	"compress/zlib"
	"encoding/binary"
	"errors"
	"fmt"
	"io"
	"reflect"
	"sort"
	"strings"
	"sync"
	"sync/atomic"
	"time"

	"ergo.services/ergo/gen"
	"ergo.services/ergo/lib"
	"ergo.services/ergo/net/edf"
	"ergo.services/ergo/net/proto"
)

func init() { props["C12"] = runC12 }

func runC12(c *Ctx) {
	c.R.Rule = "S: (max-size ∈ {0,8..64,4096,…}, 1–12 frames mostly well-formed + one malformed element, PRNG segmentation incl. 1-byte chunks and header splits) -> frames/outcome of the real serve() vs Stream.readAll on the same chunks; non-trivial = ≥2 frames or a refused stream; " +
		"E: scenarios (pool 1–4 × relay mode × max-size × compression × cache) of 20–60 messages over 20 API methods from concurrent senders -> every Route* record vs the send log, every wire frame vs Frame.encode; non-trivial = message larger than one buffer, compressed, important, refused or cached-name; distinct by (kind,size class,options); " +
		"H: valid frames of every kind mutated at the boundaries of the extracted guards -> class and fields of handleRecvQueue vs Frame.parse; " +
		"Q: receive-queue lockstep: 2-6 messages from 1-3 senders over 1-3 links to one receiver, every queue operation of serve()/handleRecvQueue() a seeded scheduling point -> label enabledness and queue length vs Model/RecvQ, at rest: queue empty, everything routed in sender order; non-trivial = a failed Lock or a re-check that found an item; " +
		"N: two real nodes over loopback: Send/SendImportant by pid, name, alias and to non-existent addressees, sizes 0..70 kB, compression on/off -> return value vs deliveries recorded by the receiving actor"
	c12Stream(c)
	for _, v := range c.R.Violations {
		if v.Signature == "C12-reader-crash" {
			// the live connections of part E run serve() in goroutines of this process: a reader that
			// panics would take the harness down before it can report
			c.R.Note("part E/H skipped: the link reader panics (see the C12-reader-crash replay)")
			return
		}
	}
	c12EndToEnd(c)
	c12Handler(c)
	c12recvq(c)
	c12flusher(c)
	c12Nodes(c)
}

// ---------------------------------------------------------------------------------------------
// part S
// ---------------------------------------------------------------------------------------------

type c12StreamCase struct {
	Max    int      `json:"max"`
	Chunks []string `json:"chunks_hex"`
	Note   string   `json:"note"`
}

// c12Frame builds a syntactically well-formed frame of total length n (≥ 8)
func c12Frame(rng *Rng, n int, order byte, typ byte) []byte {
	f := make([]byte, n)
	for i := range f {
		f[i] = byte(rng.U64())
	}
	f[0], f[1] = 78, 1
	binary.BigEndian.PutUint32(f[2:6], uint32(n))
	f[6], f[7] = order, typ
	return f
}

func c12Cut(rng *Rng, stream []byte) [][]byte {
	var chunks [][]byte
	mode := rng.Intn(5)
	for len(stream) > 0 {
		var k int
		switch mode {
		case 0:
			k = 1
		case 1:
			k = 1 + rng.Intn(7)
		case 2:
			k = 1 + rng.Intn(40)
		case 3:
			k = len(stream)
		default:
			k = 1 + rng.Intn(3000)
		}
		if rng.Chance(1, 20) {
			chunks = append(chunks, nil) // a Read returning 0 bytes
		}
		if k > len(stream) {
			k = len(stream)
		}
		chunks = append(chunks, append([]byte(nil), stream[:k]...))
		stream = stream[k:]
	}
	return chunks
}

func c12Stream(c *Ctx) {
	r := c.R
	n := c.N(3000, 40000)
	type obs struct {
		cs       c12StreamCase
		stream   []byte
		frames   [][]byte
		class    string
		wellForm bool
		nIn      int
		inLens   []int
	}
	var all []obs
	var lines []string
	for i := 0; i < n; i++ {
		max := 0
		switch c.Rng.Intn(6) {
		case 0:
			max = 8 + c.Rng.Intn(57)
		case 1:
			max = 4096
		case 2:
			max = 100 + c.Rng.Intn(20000)
		}
		nf := 1 + c.Rng.Intn(12)
		var stream []byte
		var inLens []int
		well := true
		note := "well-formed"
		bad := -1
		if c.Rng.Chance(2, 5) {
			bad = c.Rng.Intn(nf + 1)
		}
		for j := 0; j <= nf; j++ {
			if j == bad {
				well = false
				switch c.Rng.Intn(7) {
				case 0: // length field below the header size
					f := c12Frame(c.Rng, 8+c.Rng.Intn(10), 0, 101)
					binary.BigEndian.PutUint32(f[2:6], uint32(c.Rng.Intn(8)))
					stream = append(stream, f...)
					note = "len<8"
				case 1: // oversized
					f := c12Frame(c.Rng, 8+c.Rng.Intn(10), 0, 101)
					l := uint32(1 << 30)
					if max > 0 {
						l = uint32(max + 1 + c.Rng.Intn(3))
					}
					binary.BigEndian.PutUint32(f[2:6], l)
					stream = append(stream, f...)
					note = "oversized"
				case 2:
					f := c12Frame(c.Rng, 8+c.Rng.Intn(30), 0, 101)
					f[0] = byte(c.Rng.Intn(256))
					stream = append(stream, f...)
					note = "magic"
				case 3:
					f := c12Frame(c.Rng, 8+c.Rng.Intn(30), 0, 101)
					f[1] = byte(c.Rng.Intn(4))
					stream = append(stream, f...)
					note = "version"
				case 4: // truncated frame at the end of the stream
					f := c12Frame(c.Rng, 9+c.Rng.Intn(300), 0, 101)
					stream = append(stream, f[:1+c.Rng.Intn(len(f)-1)]...)
					note = "truncated"
					j = nf + 1
				case 5: // exactly at the limit / one over
					if max >= 8 {
						f := c12Frame(c.Rng, max+c.Rng.Intn(2), 0, 101)
						stream = append(stream, f...)
						note = "at-limit"
					}
				default:
					g := make([]byte, 1+c.Rng.Intn(20))
					for k := range g {
						g[k] = byte(c.Rng.U64())
					}
					stream = append(stream, g...)
					note = "garbage"
				}
				continue
			}
			if j == nf {
				break
			}
			l := 8 + c.Rng.Intn(40)
			switch c.Rng.Intn(8) {
			case 0:
				l = 8
			case 1:
				l = 2040 + c.Rng.Intn(20) // around half of the default buffer (growth rule)
			case 2:
				l = 4090 + c.Rng.Intn(12)
			case 3:
				l = 8 + c.Rng.Intn(9000)
			}
			if max > 0 && l > max {
				l = max - c.Rng.Intn(max-7)
			}
			f := c12Frame(c.Rng, l, byte(c.Rng.Intn(256)), byte(c.Rng.Intn(256)))
			inLens = append(inLens, l)
			stream = append(stream, f...)
		}
		chunks := c12Cut(c.Rng, stream)
		// run the real reader
		core := &w5Core{name: "b@w5", creation: 2002}
		lg := &w5Log{}
		conn, err := w5NewConn(core, lg, "a@w5", 1001, w5Opts{Pool: 1, MaxBrecv: max}, false)
		if err != nil {
			r.Disagree("c12-newconn", err.Error(), nil)
			return
		}
		// sometimes the first bytes arrive as the handshake's left-over (`tail` argument of Join/serve)
		var tail []byte
		if len(chunks) > 1 && c.Rng.Chance(1, 3) {
			tail = chunks[0]
			chunks = chunks[1:]
			r.Count("S:with-tail")
		}
		sc := &w5ScriptConn{chunks: chunks}
		frames, pan := proto.VerifServe(conn, sc, tail)
		class := "closed"
		if pan != nil {
			class = "crash"
		} else if sc.sawEOF {
			class = "more"
		}
		for _, e := range lg.Errs() {
			if strings.Contains(e, "incorrect proto version") {
				class = "closed:badVersion"
			} else if strings.Contains(e, "incorrect proto)") {
				class = "closed:badMagic"
			}
		}
		// the chunks as the reader saw them
		var seen []string
		pos := 0
		if len(tail) > 0 {
			seen = append(seen, hexs(tail))
			pos = len(tail)
		}
		for _, s := range sc.sizes {
			seen = append(seen, hexs(stream[pos:pos+s]))
			pos += s
		}
		cs := c12StreamCase{Max: max, Chunks: seen, Note: note}
		arg := "-"
		if len(seen) > 0 {
			arg = strings.Join(seen, ",")
		}
		lines = append(lines, fmt.Sprintf("read %d %s", max, arg))
		all = append(all, obs{cs: cs, stream: stream[:pos], frames: frames, class: class, wellForm: well && pos == len(stream), nIn: len(inLens), inLens: inLens})
		r.Count("S:" + note)
		r.Count("S:class:" + strings.SplitN(class, ":", 2)[0])
	}
	outs, err := ModelParallel("stream", lines, 8)
	if err != nil {
		r.Disagree("stream-driver", err.Error(), nil)
		return
	}
	for i, o := range all {
		w := strings.Fields(outs[i])
		if len(w) != 2 {
			r.Disagree("stream-driver", "bad output "+outs[i], o.cs)
			continue
		}
		var lens []string
		for _, f := range o.frames {
			lens = append(lens, fmt.Sprint(len(f)))
		}
		got := "-"
		if len(lens) > 0 {
			got = strings.Join(lens, ",")
		}
		mclass := w[0]
		if strings.HasPrefix(mclass, "more:") {
			mclass = "more"
		}
		gclass := o.class
		if gclass == "closed" && strings.HasPrefix(mclass, "closed:") && mclass != "closed:badMagic" && mclass != "closed:badVersion" && mclass != "closed:crash" {
			gclass = mclass // the error text of read() is not observable without tracing: class only
		}
		if gclass == "crash" {
			gclass = "closed:crash"
		}
		r.Case(fmt.Sprintf("S|%d|%s|%s|%d", o.cs.Max, o.cs.Note, mclass, len(o.frames)), len(o.frames) >= 2 || mclass != "more")
		if i < 2 {
			r.Sample(map[string]interface{}{"part": "S", "case": o.cs, "model": outs[i], "impl_frames": got, "impl_class": o.class})
		}
		if o.class == "crash" {
			r.Violation("C12-reader-crash", "serve() panicked on a byte stream (unrecovered in production: the node dies and with it every delivery)", o.cs)
		}
		if got != w[1] || gclass != mclass {
			r.Disagree("stream-read", fmt.Sprintf("model %q, implementation class=%s frames=%s", outs[i], o.class, got), o.cs)
			continue
		}
		// independent oracle: conservation and exactness
		pos := 0
		for _, f := range o.frames {
			if pos+len(f) > len(o.stream) || !bytes.Equal(f, o.stream[pos:pos+len(f)]) {
				r.Violation("C12-reassembly", "a frame handed to the decoding queue is not the next slice of the byte stream", o.cs)
				break
			}
			pos += len(f)
		}
		if o.wellForm {
			ok := len(o.frames) == o.nIn && o.class == "more"
			for j := 0; ok && j < o.nIn; j++ {
				ok = len(o.frames[j]) == o.inLens[j]
			}
			if !ok {
				r.Violation("C12-reassembly", fmt.Sprintf("well-formed stream of %d frames came out as %s (%s)", o.nIn, got, o.class), o.cs)
			}
		}
	}
}

// ---------------------------------------------------------------------------------------------
// part E
// ---------------------------------------------------------------------------------------------

type c12Msg struct {
	Idx     int
	Kind    string
	From    gen.PID
	To      gen.PID
	Name    gen.Atom
	Alias   gen.Alias
	Opts    gen.MessageOptions
	Payload any
	Reason  error
	TS      int64
	Stale   bool // wrong incarnation on purpose
	sendErr error
	dur     time.Duration
}

var c12Kinds = []string{"SendPID", "SendProcessID", "SendAlias", "SendEvent", "SendExit", "SendResponse", "SendResponseError",
	"CallPID", "CallProcessID", "CallAlias", "TerminatePID", "TerminateProcessID", "TerminateAlias", "TerminateEvent",
	"LinkPID", "MonitorPID"}

func (m *c12Msg) key() string {
	switch m.Kind {
	case "TerminatePID":
		return fmt.Sprintf("tp%d", m.To.ID)
	case "TerminateProcessID", "TerminateEvent":
		return "tn" + string(m.Name)
	case "TerminateAlias":
		return fmt.Sprintf("ta%d", m.Alias.ID[0])
	}
	return fmt.Sprintf("f%d", m.From.ID)
}

func c12RouteKey(r w5Route) string {
	switch r.Kind {
	case "TerminatePID":
		return fmt.Sprintf("tp%d", r.ToID)
	case "TerminateProcessID", "TerminateEvent":
		return "tn" + r.ToName
	case "TerminateAlias":
		return fmt.Sprintf("ta%d", r.ToID)
	}
	return fmt.Sprintf("f%d", r.From.ID)
}

func c12Payload(rng *Rng, thorough bool) (any, string) {
	size := func() int {
		switch rng.Intn(9) {
		case 0:
			return 0
		case 1:
			return 1 + rng.Intn(16)
		case 2:
			return 200 + rng.Intn(100)
		case 3:
			return 4000 + rng.Intn(200) // first buffer growth on either side
		case 4:
			return 8100 + rng.Intn(200)
		case 5:
			return 16300 + rng.Intn(200)
		case 6:
			return 1000 + rng.Intn(3000)
		case 7:
			if thorough {
				return 60000 + rng.Intn(400000)
			}
			return 30000 + rng.Intn(40000)
		}
		return rng.Intn(2000)
	}
	fill := func(n int, compressible bool) []byte {
		b := make([]byte, n)
		if compressible {
			for i := range b {
				b[i] = byte('a' + (i/7)%5)
			}
			if n > 0 {
				b[0] = byte(rng.U64())
			}
		} else {
			for i := 0; i < n; i += 8 {
				v := rng.U64()
				for j := 0; j < 8 && i+j < n; j++ {
					b[i+j] = byte(v >> (8 * j))
				}
			}
		}
		return b
	}
	switch rng.Intn(10) {
	case 0, 1, 2:
		n := size()
		if n > 60000 { // strings of 65 533..65 535 bytes are a separate EDF matter (D4); stay clear of the 16-bit limit
			n = 60000
		}
		b := fill(n, rng.Bool())
		for i := range b {
			b[i] = 'A' + b[i]%50
		}
		return string(b), fmt.Sprintf("string%d", sizeClass(n))
	case 3, 4, 5, 6:
		n := size()
		return fill(n, rng.Bool()), fmt.Sprintf("bin%d", sizeClass(n))
	case 7:
		return int64(rng.U64()), "int64"
	case 8:
		return gen.PID{Node: "x@y", ID: rng.U64(), Creation: int64(rng.Intn(1 << 30))}, "pid"
	default:
		return rng.Bool(), "bool"
	}
}

func sizeClass(n int) int {
	c := 0
	for n > 0 {
		n >>= 1
		c++
	}
	return c
}

func c12Compression(rng *Rng) gen.Compression {
	if rng.Chance(1, 2) {
		return gen.Compression{}
	}
	cp := gen.Compression{Enable: true}
	switch rng.Intn(4) {
	case 0:
		cp.Type = gen.CompressionTypeGZIP
	case 1:
		cp.Type = gen.CompressionTypeZLIB
	case 2:
		cp.Type = gen.CompressionTypeLZW
	default: // unset: the default branch of send()
	}
	cp.Level = gen.CompressionLevel(rng.Intn(3))
	switch rng.Intn(4) {
	case 0:
		cp.Threshold = 0
	case 1:
		cp.Threshold = 1024
	case 2:
		cp.Threshold = -1 // set to the exact frame length ±1 by the caller
	default:
		cp.Threshold = rng.Intn(20000)
	}
	return cp
}

var c12Reasons = []error{gen.TerminateReasonNormal, gen.TerminateReasonKill, gen.TerminateReasonPanic, gen.TerminateReasonShutdown, errors.New("custom reason")}

// c12Send performs the API call for m on conn.
func c12Send(conn gen.Connection, m *c12Msg) error {
	switch m.Kind {
	case "SendPID":
		return conn.SendPID(m.From, m.To, m.Opts, m.Payload)
	case "SendProcessID":
		return conn.SendProcessID(m.From, gen.ProcessID{Node: "b@w5", Name: m.Name}, m.Opts, m.Payload)
	case "SendAlias":
		return conn.SendAlias(m.From, m.Alias, m.Opts, m.Payload)
	case "SendEvent":
		return conn.SendEvent(m.From, m.Opts, gen.MessageEvent{Event: gen.Event{Node: "a@w5", Name: m.Name}, Timestamp: m.TS, Message: m.Payload})
	case "SendExit":
		return conn.SendExit(m.From, m.To, m.Reason)
	case "SendResponse":
		return conn.SendResponse(m.From, m.To, m.Opts, m.Payload)
	case "SendResponseError":
		return conn.SendResponseError(m.From, m.To, m.Opts, m.Reason)
	case "CallPID":
		return conn.CallPID(m.From, m.To, m.Opts, m.Payload)
	case "CallProcessID":
		return conn.CallProcessID(m.From, gen.ProcessID{Node: "b@w5", Name: m.Name}, m.Opts, m.Payload)
	case "CallAlias":
		return conn.CallAlias(m.From, m.Alias, m.Opts, m.Payload)
	case "TerminatePID":
		return conn.SendTerminatePID(m.To, m.Reason)
	case "TerminateProcessID":
		return conn.SendTerminateProcessID(gen.ProcessID{Node: "a@w5", Name: m.Name}, m.Reason)
	case "TerminateAlias":
		return conn.SendTerminateAlias(m.Alias, m.Reason)
	case "TerminateEvent":
		return conn.SendTerminateEvent(gen.Event{Node: "a@w5", Name: m.Name}, m.Reason)
	case "LinkPID":
		return conn.LinkPID(m.From, m.To)
	case "MonitorPID":
		return conn.MonitorPID(m.From, m.To)
	}
	return fmt.Errorf("unknown kind %s", m.Kind)
}

func c12errText(e error) string {
	if e == nil {
		return "<nil>"
	}
	return e.Error()
}

func c12Equal(a, b any) bool {
	if ea, ok := a.(error); ok {
		eb, ok2 := b.(error)
		return ok2 && ea.Error() == eb.Error()
	}
	if ba, ok := a.([]byte); ok {
		bb, ok2 := b.([]byte)
		return ok2 && bytes.Equal(ba, bb)
	}
	return reflect.DeepEqual(a, b)
}

func c12Describe(v any) string {
	switch x := v.(type) {
	case string:
		return fmt.Sprintf("string(len=%d)", len(x))
	case []byte:
		return fmt.Sprintf("bytes(len=%d)", len(x))
	}
	s := fmt.Sprintf("%v", v)
	if len(s) > 60 {
		s = s[:60]
	}
	return s
}

type c12Scenario struct {
	Seed      uint64   `json:"seed"`
	Index     int      `json:"scenario"`
	Pool      int      `json:"pool"`
	Relay     int      `json:"relay_mode"`
	Max       int      `json:"max_message_size"`
	Senders   int      `json:"senders"`
	Cache     bool     `json:"atom_cache"`
	Important bool     `json:"important_supported"`
	Delays    bool     `json:"per_link_delays"`
	Msgs      []string `json:"messages"`
}

// c12Directed: important sends whose frame does not live in the receive buffer's original array
// (compressed and unpacked into a grown buffer; second frame of a large segment). The
// acknowledgement must carry the sender's reference (was: stale bytes, S8).
func c12Directed(c *Ctx) {
	r := c.R
	for variant := 0; variant < 4; variant++ {
		rng := c.Rng.Fork()
		o := w5Opts{Pool: 1, RelayMode: 4, ImportantA: true, ImportantB: true}
		if variant >= 2 {
			o.RelayMode = 2
		}
		p, err := w5NewPair(rng, o)
		if err != nil {
			r.Disagree("c12-pair", err.Error(), nil)
			return
		}
		sc := c12Scenario{Seed: c.Seed, Index: -1 - variant, Pool: 1, Relay: o.RelayMode, Senders: 1, Important: true}
		var msgs []*c12Msg
		for i := 0; i < 6; i++ {
			body := make([]byte, 9000+i*3000)
			for k := range body {
				body[k] = byte('a' + k%7)
			}
			m := &c12Msg{Idx: i, Kind: []string{"SendPID", "SendProcessID", "SendAlias"}[i%3],
				From:    gen.PID{Node: "a@w5", ID: uint64(9000000 + variant*100 + i), Creation: 1001},
				To:      gen.PID{Node: "b@w5", ID: uint64(8 * (i + 1)), Creation: 2002},
				Name:    gen.Atom(fmt.Sprintf("directed%d_%d", variant, i)),
				Payload: body}
			m.Alias = gen.Alias{Node: "b@w5", ID: [3]uint64{uint64(16 * (i + 1)), 5, 6}, Creation: 2002}
			m.Opts = gen.MessageOptions{Priority: gen.MessagePriority(i % 3), ImportantDelivery: true, KeepNetworkOrder: true}
			m.Opts.Ref = gen.Ref{Node: "a@w5", Creation: 1001, ID: [3]uint64{0xA0A0A0A000000000 + uint64(variant*100+i), 0, 0}}
			if variant%2 == 0 {
				m.Opts.Compression = gen.Compression{Enable: true, Type: []gen.CompressionType{gen.CompressionTypeGZIP, gen.CompressionTypeZLIB, gen.CompressionTypeLZW}[i%3], Threshold: 1024}
			}
			msgs = append(msgs, m)
			sc.Msgs = append(sc.Msgs, fmt.Sprintf("%d:%s important, %d-byte payload, compression=%v", i, m.Kind, len(body), m.Opts.Compression.Enable))
		}
		for _, m := range msgs {
			m.sendErr = c12Send(p.A.conn, m)
		}
		p.waitRoutes(p.B.core, int64(len(msgs)), 1500*time.Millisecond, 20*time.Second)
		p.waitRoutes(p.A.core, int64(len(msgs)), 1500*time.Millisecond, 20*time.Second)
		time.Sleep(2 * time.Millisecond)
		c12CheckScenario(c, sc, o, p, msgs)
		p.Close()
	}
}

// c12RequestRace: a synchronous request whose requester is held (yield point proto:waitResult)
// between sending the request and waiting for the reply until the reply has come back and been
// routed. The reply must still reach the requester (was: thrown away by the non-blocking send on an
// unbuffered channel; the request then fails with a time-out although the remote side executed it).
func c12RequestRace(c *Ctx) {
	r := c.R
	from := gen.PID{Node: "a@w5", ID: 31337, Creation: 1001}
	to := gen.PID{Node: "b@w5", ID: 6, Creation: 2002}                    // remote result: ErrProcessTerminated
	al := gen.Alias{Node: "b@w5", ID: [3]uint64{5, 1, 2}, Creation: 2002} // ErrProcessMailboxFull
	pn := gen.ProcessID{Node: "b@w5", Name: "abcd"}                       // name of length 4: ErrProcessUnknown
	ev := gen.Event{Node: "b@w5", Name: "evnt"}
	type req struct {
		name string
		call func(conn gen.Connection) error
		want error
	}
	evErr := func(_ []gen.MessageEvent, e error) error { return e }
	pidErr := func(_ gen.PID, e error) error { return e }
	reqs := []req{
		{"LinkPID", func(cn gen.Connection) error { return cn.LinkPID(from, to) }, w5Script(6)},
		{"UnlinkPID", func(cn gen.Connection) error { return cn.UnlinkPID(from, to) }, w5Script(6)},
		{"MonitorPID", func(cn gen.Connection) error { return cn.MonitorPID(from, to) }, w5Script(6)},
		{"DemonitorPID", func(cn gen.Connection) error { return cn.DemonitorPID(from, to) }, w5Script(6)},
		{"LinkProcessID", func(cn gen.Connection) error { return cn.LinkProcessID(from, pn) }, w5Script(4)},
		{"UnlinkProcessID", func(cn gen.Connection) error { return cn.UnlinkProcessID(from, pn) }, w5Script(4)},
		{"MonitorProcessID", func(cn gen.Connection) error { return cn.MonitorProcessID(from, pn) }, w5Script(4)},
		{"DemonitorProcessID", func(cn gen.Connection) error { return cn.DemonitorProcessID(from, pn) }, w5Script(4)},
		{"LinkAlias", func(cn gen.Connection) error { return cn.LinkAlias(from, al) }, w5Script(5)},
		{"UnlinkAlias", func(cn gen.Connection) error { return cn.UnlinkAlias(from, al) }, w5Script(5)},
		{"MonitorAlias", func(cn gen.Connection) error { return cn.MonitorAlias(from, al) }, w5Script(5)},
		{"DemonitorAlias", func(cn gen.Connection) error { return cn.DemonitorAlias(from, al) }, w5Script(5)},
		{"LinkEvent", func(cn gen.Connection) error { return evErr(cn.LinkEvent(from, ev)) }, w5Script(4)},
		{"UnlinkEvent", func(cn gen.Connection) error { return cn.UnlinkEvent(from, ev) }, w5Script(4)},
		{"MonitorEvent", func(cn gen.Connection) error { return evErr(cn.MonitorEvent(from, ev)) }, w5Script(4)},
		{"DemonitorEvent", func(cn gen.Connection) error { return cn.DemonitorEvent(from, ev) }, w5Script(4)},
		{"RemoteSpawn", func(cn gen.Connection) error { return pidErr(cn.RemoteSpawn("abcd", gen.ProcessOptionsExtra{})) }, w5Script(4)},
	}
	rng := c.Rng.Fork()
	p, err := w5NewPair(rng, w5Opts{Pool: 1, RelayMode: 4, ImportantA: true, ImportantB: true})
	if err != nil {
		r.Disagree("c12-pair", err.Error(), nil)
		return
	}
	defer p.Close()
	p.B.core.nameScript = func(n string) error { return w5Script(uint64(len(n))) }
	var held int32
	var before int64
	lib.VerifHandler = func(obj any, label string) {
		if label != "proto:waitResult" {
			return
		}
		atomic.AddInt32(&held, 1)
		// wait until the remote core has executed the request, then give the reply time to travel back
		for i := 0; i < 4000 && p.B.core.Count() == atomic.LoadInt64(&before); i++ {
			time.Sleep(250 * time.Microsecond)
		}
		time.Sleep(25 * time.Millisecond)
	}
	defer func() { lib.VerifHandler = nil }()
	timeouts := 0
	for _, q := range reqs {
		atomic.StoreInt64(&before, p.B.core.Count())
		h0 := atomic.LoadInt32(&held)
		t0 := time.Now()
		got := q.call(p.A.conn)
		d := time.Since(t0)
		r.Case("E|request-race|"+q.name, true)
		r.Count("E:request-race")
		cs := map[string]interface{}{"directed": q.name + " with the requester parked at proto:waitResult until the reply is back", "returned": c12errText(got), "took_ms": d.Milliseconds()}
		if atomic.LoadInt32(&held) == h0 {
			r.Disagree("request-race-hook", "yield point proto:waitResult was not reached by "+q.name, cs)
			continue
		}
		if c12errText(got) != c12errText(q.want) {
			sig := "C12-request-result"
			if errors.Is(got, gen.ErrTimeout) {
				sig = "C12-request-timeout"
				timeouts++
			}
			r.Violation(sig, fmt.Sprintf("%s returned %s after %v; the remote core executed it once and answered %s", q.name, c12errText(got), d, c12errText(q.want)), cs)
		}
		if n := p.B.core.Count() - atomic.LoadInt64(&before); n != 1 {
			r.Violation("C12-delivery", fmt.Sprintf("%s routed %d times", q.name, n), cs)
		}
		if timeouts >= 2 {
			break // each lost reply costs the 5 s request time-out
		}
	}
}

func c12EndToEnd(c *Ctx) {
	r := c.R
	c12Directed(c)
	c12RequestRace(c)
	nsc := c.N(45, 600)
	for si := 0; si < nsc; si++ {
		if r.Failed() && len(r.Violations)+len(r.Disagreements) > 6 {
			return
		}
		c12Scenario1(c, si)
	}
}

func c12Scenario1(c *Ctx, si int) {
	r := c.R
	rng := c.Rng.Fork()
	o := w5Opts{Pool: 1 + rng.Intn(4), RelayMode: rng.Intn(4), ImportantA: true, ImportantB: true}
	if rng.Chance(1, 2) {
		o.Pool = 1
	}
	if o.RelayMode == 3 && !c.Thorough() {
		o.RelayMode = 0 // byte-by-byte only in the thorough tier (slow)
	}
	switch rng.Intn(4) {
	case 0:
		o.MaxAtoB = 2000 + rng.Intn(30000)
		o.MaxBrecv = o.MaxAtoB
	case 1:
		o.MaxAtoB = 100 + rng.Intn(300)
		o.MaxBrecv = o.MaxAtoB
	}
	if o.Pool > 1 && rng.Chance(1, 2) {
		o.LinkDelays = true
	}
	if rng.Chance(1, 8) {
		o.ImportantB = false // the receiver does not acknowledge
	}
	if rng.Chance(1, 10) {
		o.ImportantA = false
	}
	cacheNames := map[gen.Atom]uint16{}
	if rng.Chance(1, 2) {
		for i := 0; i < 6; i++ {
			cacheNames[gen.Atom(fmt.Sprintf("cached%d", i))] = uint16(300 + i*255)
		}
		// names for Terminate* frames (one message each: the frame carries nothing else to tell two apart)
		for i := 0; i < 24; i++ {
			cacheNames[gen.Atom(fmt.Sprintf("tcached%d", i))] = uint16(3000 + i*7)
		}
		o.AtomCache = cacheNames
	}
	nmsg := 20 + rng.Intn(41)
	senders := 1 + rng.Intn(6)
	sc := c12Scenario{Seed: c.Seed, Index: si, Pool: o.Pool, Relay: o.RelayMode, Max: o.MaxAtoB, Senders: senders, Cache: o.AtomCache != nil, Important: o.ImportantA && o.ImportantB, Delays: o.LinkDelays}
	if o.LinkDelays {
		r.Count("E:scenario:link-delays")
	}
	r.Count(fmt.Sprintf("E:scenario:pool=%d", o.Pool))
	p, err := w5NewPair(rng, o)
	if err != nil {
		r.Disagree("c12-pair", err.Error(), sc)
		return
	}
	defer p.Close()
	p.B.core.nameScript = func(n string) error { return w5Script(uint64(len(n))) }

	msgs := make([]*c12Msg, nmsg)
	base := uint64(1000 + si*100000)
	tcNext := 0
	for i := range msgs {
		m := &c12Msg{Idx: i, Kind: c12Kinds[rng.Intn(len(c12Kinds))]}
		if (m.Kind == "LinkPID" || m.Kind == "MonitorPID") && rng.Chance(2, 3) {
			m.Kind = "SendPID"
		}
		m.From = gen.PID{Node: "a@w5", ID: base + uint64(i)*3 + uint64(rng.Intn(3)), Creation: 1001}
		if rng.Chance(1, 12) {
			m.From.ID = 255 * uint64(1000000+si*1000+i) // order residue 0, still unique
		}
		m.To = gen.PID{Node: "b@w5", ID: uint64(5000 + rng.Intn(100000)), Creation: 2002}
		if strings.HasPrefix(m.Kind, "Terminate") {
			// a Terminate frame announces a LOCAL target: it carries this node's own incarnation
			m.To = gen.PID{Node: "a@w5", ID: base + uint64(i), Creation: 1001}
		}
		if rng.Chance(1, 25) {
			m.Stale = true
			m.To.Creation = 2001
		}
		m.Alias = gen.Alias{Node: "b@w5", ID: [3]uint64{base + uint64(i), rng.U64(), rng.U64() >> uint(rng.Intn(64))}, Creation: m.To.Creation}
		// names: inline (lengths 1, short, 255) or cached
		switch rng.Intn(6) {
		case 0:
			m.Name = gen.Atom(fmt.Sprintf("n%d_%d", si, i))
		case 1:
			m.Name = gen.Atom(fmt.Sprintf("n%d_%d_%s", si, i, strings.Repeat("x", 255-len(fmt.Sprintf("n%d_%d_", si, i)))))
		case 2:
			if o.AtomCache != nil && !strings.HasPrefix(m.Kind, "Terminate") {
				m.Name = gen.Atom(fmt.Sprintf("cached%d", rng.Intn(6)))
			} else if o.AtomCache != nil && tcNext < 24 {
				m.Name = gen.Atom(fmt.Sprintf("tcached%d", tcNext))
				tcNext++
			} else {
				m.Name = gen.Atom(fmt.Sprintf("q%d_%d", si, i))
			}
		default:
			m.Name = gen.Atom(fmt.Sprintf("name%d_%d_%s", si, i, strings.Repeat("y", rng.Intn(40))))
		}
		var pclass string
		m.Payload, pclass = c12Payload(rng, c.Thorough())
		m.Reason = c12Reasons[rng.Intn(len(c12Reasons))]
		if m.Kind == "SendResponseError" {
			switch rng.Intn(6) {
			case 0:
				m.Reason = nil
			case 1:
				m.Reason = gen.ErrProcessUnknown
			case 2:
				m.Reason = gen.ErrProcessMailboxFull
			case 3:
				m.Reason = gen.ErrProcessTerminated
			}
		}
		m.TS = int64(rng.U64())
		m.Opts = gen.MessageOptions{Priority: gen.MessagePriority(rng.Intn(3)), KeepNetworkOrder: rng.Chance(3, 4), Compression: c12Compression(rng)}
		m.Opts.Ref = gen.Ref{Node: "a@w5", Creation: 1001, ID: [3]uint64{rng.U64(), rng.U64(), rng.U64()}}
		if m.Kind == "SendResponse" || m.Kind == "SendResponseError" {
			m.Opts.Ref.Node, m.Opts.Ref.Creation = "b@w5", 2002
		}
		switch m.Kind {
		case "SendPID", "SendProcessID", "SendAlias", "CallPID", "CallProcessID", "CallAlias":
			if rng.Chance(1, 3) {
				m.Opts.ImportantDelivery = true
				if strings.HasPrefix(m.Kind, "Send") {
					m.Opts.Ref.ID[1], m.Opts.Ref.ID[2] = 0, 0
				}
			}
		}
		msgs[i] = m
		sc.Msgs = append(sc.Msgs, fmt.Sprintf("%d:%s from=%d to=%d name=%.20s imp=%v comp=%v/%s/%d/%d payload=%s", i, m.Kind, m.From.ID, m.To.ID, m.Name, m.Opts.ImportantDelivery,
			m.Opts.Compression.Enable, m.Opts.Compression.Type, m.Opts.Compression.Level, m.Opts.Compression.Threshold, pclass))
	}
	// thresholds placed exactly at the frame length: computed from the plain frame length, which
	// the harness learns from a dry run on a private connection without relay limits
	c12PlaceThresholds(rng, msgs, o)

	// send concurrently: sender k owns messages i ≡ k (mod senders)
	var wg sync.WaitGroup
	for k := 0; k < senders; k++ {
		wg.Add(1)
		go func(k int) {
			defer wg.Done()
			for i := k; i < len(msgs); i += senders {
				t0 := time.Now()
				msgs[i].sendErr = c12Send(p.A.conn, msgs[i])
				msgs[i].dur = time.Since(t0)
			}
		}(k)
	}
	wg.Wait()

	// what should arrive
	expect := 0
	expectAck := 0
	for _, m := range msgs {
		if c12Delivered(m) {
			expect++
			if c12AckExpected(m, o) {
				expectAck++
			}
		}
	}
	okB := p.waitRoutes(p.B.core, int64(expect), 1500*time.Millisecond, 90*time.Second)
	okA := p.waitRoutes(p.A.core, int64(expectAck), 1500*time.Millisecond, 90*time.Second)
	if !okB {
		r.Count("E:wait-routes-incomplete")
	}
	if !okA {
		r.Count("E:wait-acks-incomplete")
	}
	time.Sleep(2 * time.Millisecond)
	c12CheckScenario(c, sc, o, p, msgs)
}

// c12Delivered: the API call reported success, so the message must be routed on B.
func c12Delivered(m *c12Msg) bool {
	if m.Kind == "LinkPID" || m.Kind == "MonitorPID" {
		// the request reached B iff the call did not fail locally (incarnation / too large)
		return !m.Stale && !errors.Is(m.sendErr, gen.ErrTooLarge) && !errors.Is(m.sendErr, gen.ErrNoConnection)
	}
	return m.sendErr == nil
}

func c12RemoteResult(m *c12Msg) error {
	switch m.Kind {
	case "SendPID", "CallPID", "LinkPID", "MonitorPID":
		return w5Script(m.To.ID)
	case "SendAlias", "CallAlias":
		return w5Script(m.Alias.ID[0])
	case "SendProcessID", "CallProcessID":
		return w5Script(uint64(len(m.Name)))
	}
	return nil
}

func c12AckExpected(m *c12Msg, o w5Opts) bool {
	if !m.Opts.ImportantDelivery || !o.ImportantB {
		return false
	}
	if strings.HasPrefix(m.Kind, "Call") {
		return c12RemoteResult(m) != nil
	}
	return strings.HasPrefix(m.Kind, "Send")
}

func c12CheckScenario(c *Ctx, sc c12Scenario, o w5Opts, p *w5Pair, msgs []*c12Msg) {
	r := c.R
	routes := p.B.core.Routes()
	byKey := map[string][]w5Route{}
	for _, rt := range routes {
		k := c12RouteKey(rt)
		byKey[k] = append(byKey[k], rt)
	}
	acks := map[uint64][]w5Route{}
	for _, rt := range p.A.core.Routes() {
		if rt.Kind == "SendResponseError" {
			acks[rt.Ref.ID[0]] = append(acks[rt.Ref.ID[0]], rt)
		} else {
			r.Violation("C12-spurious-route", fmt.Sprintf("sender side received an unexpected %s", rt.Kind), sc)
		}
	}
	used := 0
	for _, m := range msgs {
		k := m.key()
		got := byKey[k]
		used += len(got)
		nontrivial := m.Opts.ImportantDelivery || m.sendErr != nil || m.Opts.Compression.Enable
		szc := 0
		switch v := m.Payload.(type) {
		case string:
			szc = sizeClass(len(v))
		case []byte:
			szc = sizeClass(len(v))
		}
		if szc >= 13 {
			nontrivial = true
		}
		if _, cached := o.AtomCache[m.Name]; cached {
			nontrivial = true
		}
		r.Case(fmt.Sprintf("E|%s|%d|%v|%v|%s|%d|%d|%v|%d", m.Kind, szc, m.Opts.ImportantDelivery, m.Opts.Compression.Enable, m.Opts.Compression.Type, o.Pool, o.RelayMode, m.sendErr != nil, m.Opts.Priority), nontrivial)
		r.Count("E:kind:" + m.Kind)
		r.Count(fmt.Sprintf("E:size:2^%d", szc))
		if m.sendErr != nil {
			r.Count("E:refused:" + c12errText(m.sendErr))
		}
		where := func() map[string]interface{} {
			return map[string]interface{}{"scenario": sc, "message": sc.Msgs[m.Idx], "send_result": c12errText(m.sendErr)}
		}
		// --- what the API call must have returned
		if m.Stale && m.Kind != "SendProcessID" && m.Kind != "CallProcessID" && m.Kind != "SendEvent" && m.Kind != "TerminateProcessID" && m.Kind != "TerminateEvent" {
			if !errors.Is(m.sendErr, gen.ErrProcessIncarnation) {
				r.Violation("C12-incarnation", fmt.Sprintf("%s to a stale incarnation returned %s", m.Kind, c12errText(m.sendErr)), where())
			}
			if len(got) != 0 {
				r.Violation("C12-incarnation", "message to a stale incarnation was routed", where())
			}
			continue
		}
		if m.Opts.ImportantDelivery && !o.ImportantA {
			if !errors.Is(m.sendErr, gen.ErrUnsupported) && !(o.MaxAtoB > 0 && errors.Is(m.sendErr, gen.ErrTooLarge)) {
				r.Violation("C12-important-unsupported", fmt.Sprintf("important %s to a peer without the feature returned %s", m.Kind, c12errText(m.sendErr)), where())
			}
			if len(got) != 0 {
				r.Violation("C12-important-unsupported", "refused message was routed", where())
			}
			continue
		}
		if m.Kind == "LinkPID" || m.Kind == "MonitorPID" {
			want := c12RemoteResult(m)
			if errors.Is(m.sendErr, gen.ErrTooLarge) && o.MaxAtoB > 0 {
				if len(got) != 0 {
					r.Violation("C12-oversize", "refused request was routed", where())
				}
				continue
			}
			if errors.Is(m.sendErr, gen.ErrTimeout) {
				if o.RelayMode == 3 || o.LinkDelays {
					// a deliberately slow link (byte-by-byte relay, per-link delays) can hold the reply back
					// behind large frames for longer than the 5 s request time-out: inconclusive, not a loss
					r.Count("E:inconclusive:request-timeout-on-slow-link")
					continue
				}
				r.Violation("C12-request-timeout", fmt.Sprintf("%s got no answer within %v although the wire is in-memory", m.Kind, m.dur), where())
				continue
			}
			if c12errText(m.sendErr) != c12errText(want) {
				r.Violation("C12-request-result", fmt.Sprintf("%s returned %s, the remote core returned %s", m.Kind, c12errText(m.sendErr), c12errText(want)), where())
			}
			if len(got) != 1 || got[0].Kind != m.Kind || got[0].From != m.From || got[0].To != w5pid(m.To) {
				r.Violation("C12-delivery", fmt.Sprintf("%s routed %d times / wrong fields: %+v", m.Kind, len(got), got), where())
			}
			continue
		}
		if m.sendErr != nil {
			if !errors.Is(m.sendErr, gen.ErrTooLarge) || o.MaxAtoB == 0 {
				r.Violation("C12-send-error", fmt.Sprintf("%s failed with %s", m.Kind, c12errText(m.sendErr)), where())
			}
			if len(got) != 0 {
				r.Violation("C12-oversize", "a message refused at the sender was routed", where())
			}
			continue
		}
		// --- routed exactly once, with the right content
		if len(got) != 1 {
			sig := "C12-lost"
			if len(got) > 1 {
				sig = "C12-duplicate"
			}
			r.Violation(sig, fmt.Sprintf("%s accepted by the sender was routed %d times", m.Kind, len(got)), where())
			continue
		}
		g := got[0]
		var problems []string
		chk := func(name string, ok bool, detail string) {
			if !ok {
				problems = append(problems, name+": "+detail)
			}
		}
		wantKind := m.Kind
		chk("kind", g.Kind == wantKind, g.Kind)
		prio := int(m.Opts.Priority)
		switch m.Kind {
		case "SendPID", "CallPID", "SendExit", "SendResponse", "SendResponseError":
			chk("to", g.To == w5pid(gen.PID{Node: "b@w5", ID: m.To.ID, Creation: 2002}), g.To)
		case "SendProcessID", "CallProcessID":
			chk("to", g.To == w5name(gen.ProcessID{Node: "b@w5", Name: m.Name}), g.To)
		case "SendAlias", "CallAlias":
			chk("to", g.To == w5alias(gen.Alias{Node: "b@w5", ID: m.Alias.ID, Creation: 2002}), g.To)
		case "SendEvent":
			chk("to", g.To == w5event(gen.Event{Node: "a@w5", Name: m.Name}), g.To)
			chk("timestamp", g.TS == m.TS, fmt.Sprint(g.TS))
		case "TerminatePID":
			chk("to", g.To == w5pid(gen.PID{Node: "a@w5", ID: m.To.ID, Creation: 1001}), g.To)
		case "TerminateProcessID":
			chk("to", g.To == w5name(gen.ProcessID{Node: "a@w5", Name: m.Name}), g.To)
		case "TerminateEvent":
			chk("to", g.To == w5event(gen.Event{Node: "a@w5", Name: m.Name}), g.To)
		case "TerminateAlias":
			chk("to", g.To == w5alias(gen.Alias{Node: "a@w5", ID: m.Alias.ID, Creation: 1001}), g.To)
		}
		if !strings.HasPrefix(m.Kind, "Terminate") {
			chk("from", g.From == gen.PID{Node: "a@w5", ID: m.From.ID, Creation: 1001}, fmt.Sprint(g.From))
		}
		switch m.Kind {
		case "SendPID", "SendProcessID", "SendAlias", "SendEvent", "SendResponse", "SendResponseError", "CallPID", "CallProcessID", "CallAlias":
			chk("priority", g.Prio == prio, fmt.Sprint(g.Prio))
		}
		switch m.Kind {
		case "CallPID", "CallProcessID", "CallAlias":
			chk("ref", g.Ref == gen.Ref{Node: "a@w5", Creation: 1001, ID: m.Opts.Ref.ID}, fmt.Sprint(g.Ref))
		case "SendResponse", "SendResponseError":
			chk("ref", g.Ref == gen.Ref{Node: "b@w5", Creation: 2002, ID: m.Opts.Ref.ID}, fmt.Sprint(g.Ref))
		}
		switch m.Kind {
		case "SendExit", "TerminatePID", "TerminateProcessID", "TerminateAlias", "TerminateEvent", "SendResponseError":
			if m.Reason == nil {
				chk("reason", g.Payload == nil, c12Describe(g.Payload))
			} else {
				chk("reason", c12Equal(m.Reason, g.Payload), c12Describe(g.Payload))
			}
		default:
			chk("payload", c12Equal(m.Payload, g.Payload), c12Describe(g.Payload)+" vs sent "+c12Describe(m.Payload))
		}
		if len(problems) > 0 {
			r.Violation("C12-content", fmt.Sprintf("%s arrived changed: %s", m.Kind, strings.Join(problems, "; ")), where())
		}
		// --- important delivery: the acknowledgement carries the remote result
		if m.Opts.ImportantDelivery {
			a := acks[m.Opts.Ref.ID[0]]
			delete(acks, m.Opts.Ref.ID[0])
			want := c12RemoteResult(m)
			if !c12AckExpected(m, o) {
				if len(a) != 0 {
					r.Violation("C12-important-ack", fmt.Sprintf("unexpected acknowledgement for %s: %+v", m.Kind, a), where())
				}
				continue
			}
			r.Count("E:ack:" + c12errText(want))
			if len(a) != 1 {
				r.Violation("C12-important-ack", fmt.Sprintf("important %s (ref %d) delivered remotely (result %s) but %d acknowledgements with that reference reached the sender",
					m.Kind, m.Opts.Ref.ID[0], c12errText(want), len(a)), where())
				continue
			}
			ack := a[0]
			var ae error
			if ack.Payload != nil {
				ae = ack.Payload.(error)
			}
			if c12errText(ae) != c12errText(want) {
				r.Violation("C12-important-ack", fmt.Sprintf("important %s: remote result %s, acknowledged as %s", m.Kind, c12errText(want), c12errText(ae)), where())
			}
			if ack.To != w5pid(gen.PID{Node: "a@w5", ID: m.From.ID, Creation: 1001}) {
				r.Violation("C12-important-ack", fmt.Sprintf("acknowledgement addressed to %s instead of the sender %d", ack.To, m.From.ID), where())
			}
			if strings.HasPrefix(m.Kind, "Call") && ack.Ref.ID != m.Opts.Ref.ID {
				r.Violation("C12-important-ack", "acknowledgement with a different reference", where())
			}
		}
	}
	if used != len(routes) {
		var extra []string
		keys := map[string]bool{}
		for _, m := range msgs {
			keys[m.key()] = true
		}
		for _, rt := range routes {
			if !keys[c12RouteKey(rt)] {
				extra = append(extra, fmt.Sprintf("%s from=%d to=%s", rt.Kind, rt.From.ID, rt.To))
			}
		}
		if len(extra) > 5 {
			extra = extra[:5]
		}
		r.Violation("C12-spurious-route", fmt.Sprintf("%d routes on the receiver that no sent message explains: %v", len(routes)-used, extra), sc)
	}
	for ref, a := range acks {
		r.Violation("C12-important-ack", fmt.Sprintf("acknowledgement with reference %d that no important message carries (%d records, e.g. %+v)", ref, len(a), a[0]), sc)
		break
	}
	if ps := append(p.A.log.Panics(), p.B.log.Panics()...); len(ps) > 0 {
		r.Violation("C12-panic", "panic while handling well-formed traffic: "+ps[0], sc)
	}
	if si := sc.Index; si < 2 {
		r.Sample(map[string]interface{}{"part": "E", "scenario": sc.Index, "pool": sc.Pool, "relay": sc.Relay, "max": sc.Max, "messages": len(msgs), "routed": len(routes), "first": sc.Msgs[0]})
	}
	c12CheckWire(c, sc, o, p, msgs)
}

// c12PlaceThresholds: for messages whose compression threshold is to sit on the frame length,
// obtain the plain frame length from a dry run (private connection, no limits, no compression).
func c12PlaceThresholds(rng *Rng, msgs []*c12Msg, o w5Opts) {
	need := false
	for _, m := range msgs {
		if m.Opts.Compression.Enable && m.Opts.Compression.Threshold == -1 {
			need = true
		}
	}
	if !need {
		return
	}
	for _, m := range msgs {
		if !(m.Opts.Compression.Enable && m.Opts.Compression.Threshold == -1) {
			continue
		}
		l := c12PlainLen(m, o)
		if l < 0 {
			m.Opts.Compression.Threshold = 0
			continue
		}
		m.Opts.Compression.Threshold = l - 1 + rng.Intn(3) // l-1 (compressed), l, l+1 (not compressed)
	}
}

// c12PlainLen sends m alone over a scratch connection and measures the frame.
func c12PlainLen(m *c12Msg, o w5Opts) int {
	o2 := w5Opts{Pool: 1, ImportantA: true, ImportantB: true, AtomCache: o.AtomCache}
	core := &w5Core{name: "a@w5", creation: 1001}
	conn, err := w5NewConn(core, &w5Log{}, "b@w5", 2002, o2, true)
	if err != nil {
		return -1
	}
	a1, a2 := netPipe()
	conn.Join(a1, "w5", nil, nil)
	defer conn.Terminate(nil)
	defer a2.Close()
	defer a1.Close()
	m2 := *m
	m2.Opts.Compression = gen.Compression{}
	if m2.Kind == "LinkPID" || m2.Kind == "MonitorPID" {
		return -1
	}
	done := make(chan int, 1)
	go func() {
		hdr := make([]byte, 8)
		if _, err := io.ReadFull(a2, hdr); err != nil {
			done <- -1
			return
		}
		l := int(binary.BigEndian.Uint32(hdr[2:6]))
		io.CopyN(io.Discard, a2, int64(l-8))
		done <- l
	}()
	if err := c12Send(conn, &m2); err != nil {
		a2.Close()
		<-done
		return -1
	}
	select {
	case l := <-done:
		return l
	case <-time.After(5 * time.Second):
		return -1
	}
}

// ---------------------------------------------------------------------------------------------
// wire tie: frames on the wire vs Model/Frame encode, envelope vs Model/Envelope
// ---------------------------------------------------------------------------------------------

func c12Decompress(f []byte) ([]byte, string, error) {
	if len(f) < 13 {
		return nil, "", fmt.Errorf("short envelope")
	}
	want := int(binary.BigEndian.Uint32(f[9:13]))
	var rd io.Reader
	var name string
	var err error
	switch f[8] {
	case gen.CompressionTypeGZIP.ID():
		name = "gzip"
		rd, err = gzip.NewReader(bytes.NewReader(f[13:]))
	case gen.CompressionTypeZLIB.ID():
		name = "zlib"
		rd, err = zlib.NewReader(bytes.NewReader(f[13:]))
	case gen.CompressionTypeLZW.ID():
		name = "lzw"
		rd = lzw.NewReader(bytes.NewReader(f[13:]), lzw.LSB, 8)
	default:
		return nil, "", fmt.Errorf("unknown compression id %d", f[8])
	}
	if err != nil {
		return nil, name, err
	}
	out, err := io.ReadAll(rd)
	if err != nil {
		return nil, name, err
	}
	if len(out) != want {
		return nil, name, fmt.Errorf("declared %d bytes, unpacked %d", want, len(out))
	}
	return out, name, nil
}

func c12Fields(m *c12Msg, typ byte) string {
	keep := m.Opts.KeepNetworkOrder
	ord := func(v uint64) uint64 {
		if !keep {
			return 0
		}
		return v%255 + 1 // order byte of an ordered frame is 1..255 (0 = round robin), see Generated/Arith.lean
	}
	f := map[string]uint64{}
	f["from.ID"] = m.From.ID
	f["options.Priority"] = uint64(m.Opts.Priority)
	f["options.Ref.ID[0]"], f["options.Ref.ID[1]"], f["options.Ref.ID[2]"] = m.Opts.Ref.ID[0], m.Opts.Ref.ID[1], m.Opts.Ref.ID[2]
	f["message.Timestamp"] = uint64(m.TS)
	switch m.Kind {
	case "SendPID", "CallPID", "SendResponse", "SendResponseError":
		f["to.ID"] = m.To.ID
		f["order"] = ord(m.To.ID)
	case "SendExit":
		f["to.ID"] = m.To.ID
		f["order"] = m.To.ID%255 + 1
		f["const"] = uint64(gen.MessagePriorityMax)
	case "SendProcessID", "CallProcessID", "SendEvent":
		f["order"] = ord(m.From.ID)
	case "SendAlias", "CallAlias":
		f["to.ID[0]"], f["to.ID[1]"], f["to.ID[2]"] = m.Alias.ID[0], m.Alias.ID[1], m.Alias.ID[2]
		f["order"] = ord(m.Alias.ID[1])
	case "TerminatePID":
		f["target.ID"] = m.To.ID
		f["const"] = uint64(gen.MessagePriorityHigh)
	case "TerminateAlias":
		f["target.ID[0]"], f["target.ID[1]"], f["target.ID[2]"] = m.Alias.ID[0], m.Alias.ID[1], m.Alias.ID[2]
		f["const"] = uint64(gen.MessagePriorityHigh)
	case "TerminateProcessID", "TerminateEvent":
		f["const"] = uint64(gen.MessagePriorityHigh)
	}
	if m.Kind == "SendResponseError" {
		switch m.Reason {
		case nil:
			f["switch"] = 0
		case gen.ErrProcessUnknown:
			f["switch"] = 1
		case gen.ErrProcessMailboxFull:
			f["switch"] = 2
		case gen.ErrProcessTerminated:
			f["switch"] = 3
		default:
			f["switch"] = 255
		}
	}
	var ks []string
	for k := range f {
		ks = append(ks, k)
	}
	sort.Strings(ks)
	var parts []string
	for _, k := range ks {
		parts = append(parts, fmt.Sprintf("%s=%d", k, f[k]))
	}
	return strings.Join(parts, ",")
}

type c12Wire struct {
	plainLen int
	z        bool
	typ      int
}

// c12Type: the message-type byte the writer method will use
func c12Type(m *c12Msg, o w5Opts) int {
	_, cached := o.AtomCache[m.Name]
	pick := func(inline, cache int) int {
		if cached {
			return cache
		}
		return inline
	}
	switch m.Kind {
	case "SendPID":
		return 101
	case "SendProcessID":
		return pick(102, 103)
	case "SendAlias":
		return 104
	case "SendEvent":
		return pick(105, 106)
	case "SendExit":
		return 107
	case "CallPID":
		return 121
	case "CallProcessID":
		return pick(122, 123)
	case "CallAlias":
		return 124
	case "SendResponse":
		return 129
	case "SendResponseError":
		return 130
	case "TerminatePID":
		return 181
	case "TerminateProcessID":
		return pick(182, 183)
	case "TerminateAlias":
		return 184
	case "TerminateEvent":
		return pick(185, 186)
	}
	return 0
}

func c12CheckWire(c *Ctx, sc c12Scenario, o w5Opts, p *w5Pair, msgs []*c12Msg) {
	r := c.R
	// all frames that went A -> B (whole frames: a frame is written under the flusher lock)
	type wf struct {
		raw   []byte // as on the wire
		plain []byte // after opening the envelope
		z     string
	}
	var frames []wf
	for _, rl := range p.ab {
		wire := rl.Wire()
		if len(wire) >= rl.wireCap {
			r.Count("E:wire-transcript-capped")
			return
		}
		fs, rest := w5SplitFrames(wire)
		if len(rest) != 0 {
			r.Violation("C12-wire", fmt.Sprintf("the bytes written by the sender do not split into frames (%d bytes left over)", len(rest)), sc)
			return
		}
		for _, f := range fs {
			w := wf{raw: f, plain: f}
			if f[7] == 200 {
				pl, name, err := c12Decompress(f)
				if err != nil {
					r.Violation("C12-envelope", "compressed frame does not unpack: "+err.Error(), sc)
					continue
				}
				w.plain, w.z = pl, name
				if pl[6] != f[6] {
					r.Violation("C12-envelope", "envelope does not keep the order byte", sc)
				}
			}
			if len(w.plain) < 8 || w.plain[7] == 199 {
				continue // sendAny (link/monitor requests): EDF only
			}
			frames = append(frames, w)
		}
	}
	if len(frames) == 0 {
		return
	}
	// 1) model reader on every wire frame -> key
	var lines []string
	for _, f := range frames {
		lines = append(lines, "parse "+hexs(f.plain))
	}
	outs, err := ModelParallel("frame", lines, 4)
	if err != nil {
		r.Disagree("frame-driver", err.Error(), sc)
		return
	}
	byKey := map[string]*c12Msg{}
	for _, m := range msgs {
		byKey[m.key()] = m
	}
	var lines2 []string
	var idx []int
	var ms []*c12Msg
	seen := map[string]int{}
	wireSeen := map[string]c12Wire{}
	for i, out := range outs {
		w := strings.Fields(out)
		if len(w) != 4 || w[0] != "ok" {
			r.Disagree("frame-parse", fmt.Sprintf("Model/Frame.parse rejects a frame produced by the real writer: %q (type %d, len %d)", out, frames[i].plain[7], len(frames[i].plain)), sc)
			continue
		}
		fields := map[string]string{}
		for _, kv := range strings.Split(w[1], ",") {
			if j := strings.Index(kv, "="); j > 0 {
				fields[kv[:j]] = kv[j+1:]
			}
		}
		var poff int
		fmt.Sscanf(w[3], "%d", &poff)
		name := ""
		if w[2] != "-" {
			var nb []byte
			fmt.Sscanf(w[2], "%x", &nb)
			name = string(nb)
		}
		typ := frames[i].plain[7]
		var key string
		switch {
		case typ == 181:
			key = "tp" + fields["target.ID"]
		case typ == 182 || typ == 185:
			key = "tn" + name
		case typ == 183 || typ == 186:
			key = "tn?" // a cached name: look the id up in the table both sides were given
			for nm, id := range o.AtomCache {
				if fmt.Sprint(id) == fields["cacheid"] {
					key = "tn" + string(nm)
				}
			}
		case typ == 184:
			key = "ta" + fields["target.ID[0]"]
		default:
			key = "f" + fields["from.ID"]
		}
		m := byKey[key]
		if m == nil {
			if typ == 130 {
				continue // acknowledgements travel B -> A only; not expected here
			}
			r.Violation("C12-wire", fmt.Sprintf("frame of type %d on the wire that no API call explains (key %s)", typ, key), sc)
			continue
		}
		seen[key]++
		imp := 0
		if m.Opts.ImportantDelivery {
			imp = 1
		}
		nm := "-"
		if name != "" {
			nm = hexs([]byte(name))
		}
		pl := "-"
		if poff < len(frames[i].plain) {
			pl = hexs(frames[i].plain[poff:])
		}
		fl := c12Fields(m, typ)
		if cid, ok := fields["cacheid"]; ok {
			want := fmt.Sprint(o.AtomCache[m.Name])
			if cid != want {
				r.Violation("C12-wire", fmt.Sprintf("cache id %s on the wire for name %q (table says %s)", cid, m.Name, want), sc)
			}
			fl += ",cacheid=" + cid
		}
		lines2 = append(lines2, fmt.Sprintf("enc %d %d %s %s %s", typ, imp, nm, pl, fl))
		idx = append(idx, i)
		ms = append(ms, m)
		// envelope decision: compared with Model/Envelope below
		cp := m.Opts.Compression
		wireSeen[key] = c12Wire{plainLen: len(frames[i].plain), z: frames[i].z != "", typ: int(typ)}
		if frames[i].z != "" {
			wt := string(cp.Type)
			if wt == "" {
				wt = "gzip"
			}
			if wt != frames[i].z {
				r.Violation("C12-envelope", fmt.Sprintf("compression type %s requested, %s used", wt, frames[i].z), sc)
			}
			r.Count("E:z:" + frames[i].z)
		}
		if o.MaxAtoB > 0 && len(frames[i].raw) > o.MaxAtoB {
			r.Violation("C12-oversize", fmt.Sprintf("a frame of %d bytes was written although the peer's limit is %d", len(frames[i].raw), o.MaxAtoB), sc)
		}
	}
	for _, m := range msgs {
		n := seen[m.key()]
		if m.Kind == "LinkPID" || m.Kind == "MonitorPID" {
			continue
		}
		if m.sendErr != nil && n != 0 {
			r.Violation("C12-oversize", fmt.Sprintf("%s returned %s but %d frame(s) were written", m.Kind, c12errText(m.sendErr), n), sc)
		}
		if m.sendErr == nil && n != 1 {
			r.Violation("C12-wire", fmt.Sprintf("%s returned nil but %d frames were written", m.Kind, n), sc)
		}
	}
	// Model/Envelope: refused / plain / z for every message, from the plain frame length
	var elines []string
	var ems []*c12Msg
	for _, m := range msgs {
		if m.Kind == "LinkPID" || m.Kind == "MonitorPID" || (m.sendErr != nil && !errors.Is(m.sendErr, gen.ErrTooLarge)) {
			continue
		}
		w, ok := wireSeen[m.key()]
		if !ok {
			w.plainLen = c12PlainLen(m, o)
			w.typ = c12Type(m, o)
			if w.plainLen < 0 {
				continue
			}
		}
		en := 0
		if m.Opts.Compression.Enable {
			en = 1
		}
		elines = append(elines, fmt.Sprintf("send %d %d %d %d %d", w.typ, o.MaxAtoB, en, m.Opts.Compression.Threshold, w.plainLen))
		ems = append(ems, m)
	}
	eouts, err := Model("envelope", elines)
	if err != nil {
		r.Disagree("envelope-driver", err.Error(), sc)
		return
	}
	for j, out := range eouts {
		m := ems[j]
		w, onWire := wireSeen[m.key()]
		var obs string
		switch {
		case onWire && w.z:
			obs = "z"
		case onWire:
			obs = "plain"
		case errors.Is(m.sendErr, gen.ErrTooLarge):
			obs = "refused"
		default:
			obs = "nothing"
		}
		r.Count("E:envelope:" + out)
		ok := out == obs || (out == "z" && obs == "refused") // the compressed size is not predicted
		if !ok {
			r.Disagree("envelope-send", fmt.Sprintf("%s: Model/Envelope says %q for `%s`, observed %s (send returned %s)", m.Kind, out, elines[j], obs, c12errText(m.sendErr)),
				map[string]interface{}{"scenario": sc, "message": sc.Msgs[m.Idx]})
		}
	}
	outs2, err := ModelParallel("frame", lines2, 4)
	if err != nil {
		r.Disagree("frame-driver", err.Error(), sc)
		return
	}
	for j, out := range outs2 {
		f := frames[idx[j]].plain
		hf := hexs(f)
		// the model marks header bytes no write covers as ".." (stale buffer content on the wire)
		diff := -1
		if len(out) != len(hf) {
			diff = imin(len(out), len(hf)) / 2
		} else {
			for k := 0; k+1 < len(out); k += 2 {
				if out[k] == '.' {
					continue
				}
				if out[k] != hf[k] || out[k+1] != hf[k+1] {
					diff = k / 2
					break
				}
			}
		}
		if diff >= 0 {
			r.Disagree("frame-encode", fmt.Sprintf("%s: wire frame differs from Model/Frame.encode at offset %d (wire len %d, model len %d; wire %s…, model %s…)",
				ms[j].Kind, diff, len(f), len(out)/2, hf[:imin(len(hf), 140)], out[:imin(len(out), 140)]), map[string]interface{}{"scenario": sc, "message": sc.Msgs[ms[j].Idx]})
		}
		r.Count("E:wire-frames-compared")
	}
}

// ---------------------------------------------------------------------------------------------
// part H: receive cases vs Model/Frame.parse
// ---------------------------------------------------------------------------------------------

type c12HCase struct {
	Frame string `json:"frame_hex"`
	Note  string `json:"note"`
}

func c12Handler(c *Ctx) {
	r := c.R
	n := c.N(2000, 30000)
	// payload: a valid EDF string so that a parsed frame is routed
	pay := lib2Encode("hello")
	types := []byte{101, 102, 103, 104, 105, 106, 107, 121, 122, 123, 124, 129, 130, 181, 182, 183, 184, 185, 186}
	var cases []c12HCase
	var lines []string
	type ob struct {
		routes []w5Route
		errs   []string
		pan    []string
		term   bool
		esc    any
	}
	var obs []ob
	cache := map[gen.Atom]uint16{"cachedname": 777}
	for i := 0; i < n; i++ {
		typ := types[c.Rng.Intn(len(types))]
		hl := 8 + c.Rng.Intn(62)
		f := make([]byte, hl)
		for k := range f {
			f[k] = byte(c.Rng.U64())
		}
		note := "random-header"
		f[0], f[1], f[7] = 78, 1, typ
		if len(f) > 16 {
			f[16] &= 0x83
		}
		// plausible name length / cache id at the places the kinds use
		for _, o := range []int{9, 25, 41} {
			if o < len(f) && c.Rng.Chance(2, 3) {
				f[o] = byte(c.Rng.Intn(12))
			}
		}
		if c.Rng.Chance(1, 3) {
			for _, o := range []int{9, 25, 41} {
				if o+1 < len(f) {
					f[o], f[o+1] = 0x03, 0x09 // cache id 777
				}
			}
			note = "cache-id"
		}
		if typ == 130 && len(f) > 49 {
			f[49] = []byte{0, 1, 2, 3, 255, 7}[c.Rng.Intn(6)]
		}
		if c.Rng.Chance(2, 3) {
			f = append(f, pay...)
			note += "+payload"
		}
		binary.BigEndian.PutUint32(f[2:6], uint32(len(f)))
		cases = append(cases, c12HCase{Frame: hexs(f), Note: note})
		lines = append(lines, "parse "+hexs(f))
		core := &w5Core{name: "b@w5", creation: 2002}
		lg := &w5Log{}
		conn, err := w5NewConn(core, lg, "a@w5", 1001, w5Opts{Pool: 1, ImportantB: false, AtomCache: cache}, false)
		if err != nil {
			r.Disagree("c12-newconn", err.Error(), nil)
			return
		}
		esc := proto.VerifHandleFrame(conn, f)
		obs = append(obs, ob{routes: core.Routes(), errs: lg.Errs(), pan: lg.Panics(), term: proto.VerifTerminated(conn), esc: esc})
	}
	outs, err := ModelParallel("frame", lines, 8)
	if err != nil {
		r.Disagree("frame-driver", err.Error(), nil)
		return
	}
	for i, out := range outs {
		o := obs[i]
		w := strings.Fields(out)
		class := w[0]
		var gclass string
		switch {
		case o.esc != nil:
			gclass = "escaped-panic"
		case len(o.pan) > 0 || o.term:
			gclass = "recovered"
		case len(o.routes) > 0:
			gclass = "ok"
		default:
			gclass = "noroute"
			for _, e := range o.errs {
				if strings.Contains(e, "malformed message (too small") {
					gclass = "dropped"
				}
			}
		}
		r.Case("H|"+cases[i].Note+"|"+class+"|"+fmt.Sprint(len(cases[i].Frame)/2), class != "ok" || len(o.routes) > 0)
		r.Count("H:" + class)
		if gclass == "escaped-panic" {
			r.Violation("C16-frames-handler-crash", fmt.Sprintf("panic escaped the decoding worker: %v", o.esc), cases[i])
			continue
		}
		okish := gclass == class || (class == "ok" && gclass == "noroute") // header fine, payload/cache/error-code refused later
		if !okish {
			r.Disagree("frame-handle", fmt.Sprintf("Model/Frame.parse says %q, handleRecvQueue: %s (errors %v, panics %v)", out, gclass, o.errs, o.pan), cases[i])
			continue
		}
		if class == "ok" && gclass == "ok" {
			// fields
			fields := map[string]uint64{}
			for _, kv := range strings.Split(w[1], ",") {
				if j := strings.Index(kv, "="); j > 0 {
					var v uint64
					fmt.Sscanf(kv[j+1:], "%d", &v)
					fields[kv[:j]] = v
				}
			}
			g := o.routes[0]
			var bad []string
			if v, ok := fields["from.ID"]; ok && g.From.ID != v {
				bad = append(bad, fmt.Sprintf("from.ID model %d impl %d", v, g.From.ID))
			}
			if v, ok := fields["options.Priority"]; ok && uint64(g.Prio) != v {
				bad = append(bad, fmt.Sprintf("priority model %d impl %d", v, g.Prio))
			}
			if v, ok := fields["to.ID"]; ok && !strings.Contains(g.To, fmt.Sprintf("/%d/", v)) {
				bad = append(bad, fmt.Sprintf("to.ID model %d impl %s", v, g.To))
			}
			if v, ok := fields["target.ID"]; ok && !strings.Contains(g.To, fmt.Sprintf("/%d/", v)) {
				bad = append(bad, fmt.Sprintf("target.ID model %d impl %s", v, g.To))
			}
			for _, pfx := range []string{"to.ID", "target.ID"} {
				if v0, ok := fields[pfx+"[0]"]; ok {
					want := fmt.Sprintf("/%d.%d.%d/", v0, fields[pfx+"[1]"], fields[pfx+"[2]"])
					if !strings.Contains(g.To, want) {
						bad = append(bad, fmt.Sprintf("%s model %s impl %s", pfx, want, g.To))
					}
				}
			}
			if v, ok := fields["options.Ref.ID[1]"]; ok && (g.Ref.ID[1] != v || g.Ref.ID[0] != fields["options.Ref.ID[0]"] || g.Ref.ID[2] != fields["options.Ref.ID[2]"]) {
				bad = append(bad, fmt.Sprintf("ref model %d.%d.%d impl %v", fields["options.Ref.ID[0]"], v, fields["options.Ref.ID[2]"], g.Ref.ID))
			}
			if v, ok := fields["message.Timestamp"]; ok && uint64(g.TS) != v {
				bad = append(bad, fmt.Sprintf("timestamp model %d impl %d", v, g.TS))
			}
			if w[2] != "-" {
				var nb []byte
				fmt.Sscanf(w[2], "%x", &nb)
				if !strings.HasSuffix(g.To, "/"+string(nb)) {
					bad = append(bad, fmt.Sprintf("name model %q impl %s", nb, g.To))
				}
			}
			if len(bad) > 0 {
				r.Disagree("frame-handle-fields", strings.Join(bad, "; "), cases[i])
			}
		}
		if i < 1 {
			r.Sample(map[string]interface{}{"part": "H", "case": cases[i], "model": out, "impl": gclass})
		}
	}
}

// lib2Encode returns the EDF encoding of v with default options.
func lib2Encode(v any) []byte {
	b := libTake()
	if err := edf.Encode(v, b, edf.Options{}); err != nil {
		panic(err)
	}
	return append([]byte(nil), b.B...)
}

import ErgoVerif.Props.C10
import ErgoVerif.Generated.SpawnFail
/-!
# C10 — the fault point "during start-up"

A process whose `ProcessInit` fails never becomes visible: `node.spawn` returns the error. It may already have spawned
children (a supervisor starts all its children inside ProcessInit; any actor may spawn in Init). `failInit i` is that
path for process i. `nf` (regenerated: `Gen.SpawnFail.notifiesLinked`) says whether the path notifies the processes that
linked themselves with i (LinkParent) — `RouteTerminatePID` — or only walks the links i holds itself; in the latter
shape children spawned with LinkParent alone are told nothing (`markDead`).

* `C10_no_orphans_init`    — with the notification, the no-orphans statement of `Props/C10` holds over the larger
                             label set: for every history with failed starts at any depth, at any moment
* `C10_D34_before_fix`     — without it: root, child (LinkParent), the root's Init fails: the child runs on, no exit
                             signal is on its way (defect D34)
-/
namespace ErgoVerif.Props.C10Init
open ErgoVerif ErgoVerif.Tree ErgoVerif.Props.C10

/-- the failing process disappears, nobody is told -/
def markDead (c : Cfg) (i : Nat) : Cfg :=
  (c.zipIdx).map fun (p, j) => if j = i then { p with alive := false, pendingExit := false } else p

inductive LblF
  | base (l : Lbl)
  | failInit (i : Nat)     -- ProcessInit of i returns an error (i is executing its Init: alive in the model's sense)
deriving Repr

def stepF (nf : Bool) (c : Cfg) : LblF → Option Cfg
  | .base l => step c l
  | .failInit i => if isAlive c i then some (if nf then kill c i else markDead c i) else none

def ReachF (nf : Bool) (c : Cfg) : Prop := ∃ ls, run (stepF nf) [] ls = some c

theorem stepF_inv (c : Cfg) (l : LblF) (c' : Cfg) (h : Inv c) (hs : stepF true c l = some c') : Inv c' := by
  cases l with
  | base l => exact step_inv c l c' h hs
  | failInit i =>
    simp only [stepF] at hs
    split at hs
    · cases hs; exact kill_inv c i h
    · cases hs

theorem reachF_inv {c : Cfg} (h : ReachF true c) : Inv c := by
  obtain ⟨ls, hr⟩ := h
  exact run_inv (Inv := Inv) stepF_inv inv_nil hr

theorem no_orphans_of_inv (c : Cfg) (hinv : Inv c) (hq : quiescent c) (i a : Nat)
    (hi : isAlive c i = true) (ha : Ancestor c a i) : isAlive c a = true := by
  induction ha with
  | @parent i a p hp hpar =>
    have hal : p.alive = true := by simpa [isAlive, hp] using hi
    rcases (hinv i p hp).2 hal a hpar with h1 | h2
    · exact h1
    · have := hq p (List.mem_of_getElem? hp) hal
      rw [this] at h2; cases h2
  | @step i a b p hp hpar _ ih =>
    have hal : p.alive = true := by simpa [isAlive, hp] using hi
    have hb : isAlive c b = true := by
      rcases (hinv i p hp).2 hal b hpar with h1 | h2
      · exact h1
      · have := hq p (List.mem_of_getElem? hp) hal
        rw [this] at h2; cases h2
    exact ih hb

/-- the flag form -/
theorem C10_no_orphans_init_full (nf : Bool) (hnf : nf = true) (c : Cfg) (h : ReachF nf c) (hq : quiescent c)
    (i a : Nat) (hi : isAlive c i = true) (ha : Ancestor c a i) : isAlive c a = true := by
  subst hnf
  exact no_orphans_of_inv c (reachF_inv h) hq i a hi ha

theorem C10_code_shape_spawn_failure :
    Gen.SpawnFail.notifiesLinked = true ∧ Gen.SpawnFail.signalsOwnLinkTargets = true := by decide

/-- **No orphans, failed starts included** — for the code as it is -/
theorem C10_no_orphans_init (c : Cfg) (h : ReachF Gen.SpawnFail.notifiesLinked c) (hq : quiescent c)
    (i a : Nat) (hi : isAlive c i = true) (ha : Ancestor c a i) : isAlive c a = true :=
  C10_no_orphans_init_full _ C10_code_shape_spawn_failure.1 c h hq i a hi ha

/-- defect D34: without the notification a child spawned with LinkParent by a process whose Init then fails keeps
    running, and nothing is on its way to stop it -/
theorem C10_D34_before_fix :
    ∃ c, ReachF false c ∧ quiescent c ∧ isAlive c 1 = true ∧ isAlive c 0 = false ∧
      (∃ p, c[1]? = some p ∧ p.parent = some 0) :=
  ⟨_, ⟨[.base .spawnRoot, .base (.spawnChild 0), .failInit 0], rfl⟩, by decide, by decide, by decide, ⟨_, rfl, rfl⟩⟩

/-- non-vacuity: with the notification the same history leaves the child with the exit signal pending, then gone -/
example : ∃ c, ReachF true c ∧ quiescent c ∧ isAlive c 1 = false ∧ isAlive c 0 = false :=
  ⟨_, ⟨[.base .spawnRoot, .base (.spawnChild 0), .failInit 0, .base (.handleExit 1)], rfl⟩, by decide, by decide, by decide⟩

end ErgoVerif.Props.C10Init

/-
node.RegisterName(name, pid) by a third party racing with the termination of process `pid` (node/node.go).

  RegisterName:      p.isAlive()? · p.registered.CompareAndSwap(false, true) · names.LoadOrStore(name, p) · p.name = name
                     · (when the code has it, `rc`) p.isAlive() again: if not, names.CompareAndDelete(name, p), error
  termination:       the state leaves the alive set · unregisterProcess: registered := p.registered.Load() ·
                     if registered { names.Delete(p.name) }        (p.name read at that moment; "" deletes nothing)

One name, one registrant, the name free at the start. Every shared-memory access is one step.
-/
namespace ErgoVerif.RegRace

inductive RPc | checkAlive | cas | store | setName | recheck | doneOk | doneErr deriving DecidableEq, Repr
inductive TPc | markDead | readReg | del | done deriving DecidableEq, Repr

structure Cfg where
  alive : Bool
  registered : Bool
  inTable : Bool       -- names[name] = p
  nameSet : Bool       -- p.name = name
  saw : Bool           -- what the terminator read from p.registered
  r : RPc
  t : TPc
deriving DecidableEq, Repr

inductive Lbl | rStep | tStep deriving DecidableEq, Repr

def init : Cfg := ⟨true, false, false, false, false, .checkAlive, .markDead⟩

def step (rc : Bool) (c : Cfg) : Lbl → Option Cfg
  | .rStep => match c.r with
    | .checkAlive => if c.alive then some { c with r := .cas } else some { c with r := .doneErr }
    | .cas => if c.registered then some { c with r := .doneErr } else some { c with registered := true, r := .store }
    | .store => some { c with inTable := true, r := .setName }
    | .setName => some { c with nameSet := true, r := if rc then .recheck else .doneOk }
    | .recheck => if c.alive then some { c with r := .doneOk } else some { c with inTable := false, r := .doneErr }
    | _ => none
  | .tStep => match c.t with
    | .markDead => some { c with alive := false, t := .readReg }
    | .readReg => some { c with saw := c.registered, t := .del }
    | .del => if c.saw && c.nameSet then some { c with inTable := false, t := .done } else some { c with t := .done }
    | .done => none

def run (rc : Bool) : Cfg → List Lbl → Option Cfg
  | c, [] => some c
  | c, l :: ls => match step rc c l with
    | none => none
    | some c' => run rc c' ls

end ErgoVerif.RegRace

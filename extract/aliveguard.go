package main

import (
	"fmt"
	"go/ast"
	"go/token"
	"regexp"
	"sort"
	"strings"
)

// Generated/AliveGuard.lean: every function of node/core.go and node/process.go that puts a message into the mailbox
// of a PROCESS (`T.mailbox.<Queue>`): is the push preceded by a test `T.isAlive()` of that same process whose failing
// branch returns? (T = the variable whose mailbox is used.)

func init() {
	generators = append(generators, generator{name: "AliveGuard", run: genAliveGuard,
		fallback: "namespace ErgoVerif.Gen.AliveGuard\nstructure Row where\n  fn : String\n  target : String\n  guarded : Bool\nderiving DecidableEq, Repr\ndef rows : List Row := []\nend ErgoVerif.Gen.AliveGuard\n"})
}

var mailboxRe = regexp.MustCompile(`^([A-Za-z_][A-Za-z0-9_]*)\.mailbox\.(Main|System|Urgent|Log)$`)

func genAliveGuard() (string, error) {
	type row struct {
		fn, target string
		guarded    bool
	}
	var rows []row
	for _, file := range []string{"node/core.go", "node/process.go"} {
		f, err := parseFile(file)
		if err != nil {
			return "", err
		}
		for _, d := range f.Decls {
			fd, ok := d.(*ast.FuncDecl)
			if !ok || fd.Body == nil {
				continue
			}
			// targets: variables whose mailbox queue is pushed to, directly or through `queue = T.mailbox.X`
			targets := map[string]token.Pos{} // target -> position of the first push that concerns it
			var queueOwners []string
			var firstPush token.Pos
			ast.Inspect(fd.Body, func(n ast.Node) bool {
				switch x := n.(type) {
				case *ast.AssignStmt:
					if len(x.Lhs) == 1 && len(x.Rhs) == 1 && exprStr(x.Lhs[0]) == "queue" {
						if m := mailboxRe.FindStringSubmatch(exprStr(x.Rhs[0])); m != nil {
							queueOwners = append(queueOwners, m[1])
						}
					}
				case *ast.CallExpr:
					se, ok := x.Fun.(*ast.SelectorExpr)
					if !ok || se.Sel.Name != "Push" {
						return true
					}
					recv := exprStr(se.X)
					if recv == "queue" {
						if firstPush == 0 {
							firstPush = x.Pos()
						}
					} else if m := mailboxRe.FindStringSubmatch(recv); m != nil {
						if _, ok := targets[m[1]]; !ok {
							targets[m[1]] = x.Pos()
						}
					}
				}
				return true
			})
			if firstPush != 0 {
				for _, o := range queueOwners {
					if _, ok := targets[o]; !ok {
						targets[o] = firstPush
					}
				}
			}
			if len(targets) == 0 {
				continue
			}
			for t, pushPos := range targets {
				if t == "p" && fd.Recv != nil && file == "node/process.go" && fd.Name.Name != "Forward" {
					// a process pushing into its own mailbox (self-send paths): its own liveness is not the question
					continue
				}
				guarded := false
				ast.Inspect(fd.Body, func(n ast.Node) bool {
					is, ok := n.(*ast.IfStmt)
					if !ok || is.Pos() >= pushPos {
						return true
					}
					txt := exprStr(is.Cond)
					if is.Init != nil {
						txt = stmtShape([]ast.Stmt{is.Init}) + ";" + txt
						if as, ok := is.Init.(*ast.AssignStmt); ok && len(as.Rhs) == 1 {
							txt += ";" + exprStr(as.Rhs[0])
						}
					}
					if !strings.Contains(txt, t+".isAlive") {
						return true
					}
					for _, b := range is.Body.List {
						if _, ok := b.(*ast.ReturnStmt); ok {
							guarded = true
						}
					}
					return true
				})
				rows = append(rows, row{fd.Name.Name, t, guarded})
			}
		}
	}
	if len(rows) == 0 {
		return "", fmt.Errorf("no push into a process mailbox found in node/core.go, node/process.go")
	}
	sort.Slice(rows, func(i, j int) bool { return rows[i].fn+rows[i].target < rows[j].fn+rows[j].target })
	var b strings.Builder
	b.WriteString("namespace ErgoVerif.Gen.AliveGuard\nstructure Row where\n  fn : String\n  target : String\n  /-- an `if T.isAlive() == false { return … }` precedes the push -/\n  guarded : Bool\nderiving DecidableEq, Repr\ndef rows : List Row := [\n")
	for i, r := range rows {
		c := ","
		if i == len(rows)-1 {
			c = ""
		}
		fmt.Fprintf(&b, "  ⟨%q, %q, %v⟩%s\n", r.fn, r.target, r.guarded, c)
	}
	b.WriteString("]\nend ErgoVerif.Gen.AliveGuard\n")
	return b.String(), nil
}

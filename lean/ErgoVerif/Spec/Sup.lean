import ErgoVerif.Model.SupCommon
/-
The documented rules of act.Supervisor (type / strategy / significant / auto-shutdown / restart
intensity), written without reference to the state machines: what must happen when ONE child,
whose spec is enabled, terminates while the supervisor is in normal operation.

Sources: the doc comments of SupervisorType*, SupervisorStrategy*, SupervisorSpec.DisableAutoShutdown,
SupervisorChildSpec.Significant, SupervisorRestart.KeepOrder in act/supervisor.go.
-/
namespace ErgoVerif.Spec.Sup
open ErgoVerif.Sup

/-- what the supervisor has to do about a terminated child -/
inductive Decision where
  | ignore                      -- the child stays down, nobody else is touched
  | restart                     -- the restart strategy of the supervisor type is carried out
  | giveUp                      -- stop all children, terminate with ErrSupervisorRestartsExceeded
  | stopAll (r : Reason)        -- stop all children, terminate with the child's reason
  deriving DecidableEq, Repr

/-- Permanent: always restarted; Transient: only after an abnormal exit; Temporary: never -/
def needsRestart (st : Strategy) (r : Reason) : Bool :=
  match st with
  | .permanent => true
  | .transient => !r.quiet
  | .temporary => false

/-- the rule.  `significant` and `autoShutdown` are ignored for simple-one-for-one (`simple`);
`othersRunning` = number of other running children; `exceeded` = verdict of the restart-intensity rule (C09). -/
def rule (simple : Bool) (st : Strategy) (r : Reason) (significant autoShutdown : Bool)
    (othersRunning : Nat) (exceeded : Bool) : Decision :=
  if needsRestart st r then (if exceeded then .giveUp else .restart)
  else if simple then .ignore
  else if significant then .stopAll r
  else if othersRunning = 0 ∧ autoShutdown then .stopAll r
  else .ignore

/-- which specs (by index) belong to the restart group when the child with index `j` is restarted -/
def inGroup (kind : Nat) (j i : Nat) : Bool :=      -- 0 one-for-one, 1 all-for-one, 2 rest-for-one
  match kind with
  | 0 => i == j
  | 1 => true
  | _ => Nat.ble j i

end ErgoVerif.Spec.Sup

import ErgoVerif.Lemmas.EdfTop
namespace ErgoVerif.Edf
open ErgoVerif.Generated.Edt

/-- representable leaves: the value has the shape of the type and is within the wire limits -/
def LeafRep (o : Opts) : Ty → Val → Prop
  | .bool, .bool _ => True
  | .num p, .num bs => bs.length = p.width
  | .str, .str s => s.length ≤ 65535
  | .bin, .bin s => s.length ≤ 4294967295
  | .atom, .atom a => a.length ≤ 255
  | .idr k, .idr node raw => node.length ≤ 255 ∧ raw.length = k.rawLen
  | .idn _, .idn node name => node.length ≤ 255 ∧ name.length ≤ 255
  | .time, .time bs => timeValid bs = true
  | .error, .errText s => s.length ≤ 32767
  | .error, .errSent k => (∃ id, o.errId k = some id ∧ id > 32767) ∨ (o.errText k).length ≤ 32767
  | _, _ => False

theorem encLeaf_rep (o : Opts) (t : Ty) (v : Val) : (encLeaf o t v).isSome = true ↔ LeafRep o t v := by
  cases t <;> cases v <;> simp [encLeaf, LeafRep]
  case str.str s => simp [limStringEnc]
  case bin.bin s => simp [limBinaryEnc]
  case atom.atom s => simp [limAtomEnc]
  case idr.idr k node raw =>
    simp only [limAtomPidEnc]
    by_cases h1 : 255 < node.length <;> by_cases h2 : raw.length = k.rawLen <;> simp [h1, h2] <;> omega
  case idn.idn k node name =>
    simp only [limAtomPidEnc]
    by_cases h1 : 255 < node.length <;> by_cases h2 : 255 < name.length <;> simp [h1, h2] <;> omega
  case error.errText s => simp [limErrorEnc]
  case error.errSent k =>
    simp only [limErrIdEnc, limErrorEnc]
    cases hid : o.errId k with
    | none => by_cases h1 : 32767 < (o.errText k).length <;> simp [h1] <;> omega
    | some id =>
      by_cases h0 : 32767 < id <;> by_cases h1 : 32767 < (o.errText k).length <;> simp [h0, h1] <;> omega

mutual
/-- representable values: exactly what the encoder accepts (`C11_reject`) -/
def Rep (o : Opts) : Ty → Val → Prop
  | .error, .nil => True
  | .any, .nil => True
  | .any, .any t v => t.encodable = true ∧ t ≠ .any ∧ ¬ (t = .error ∧ v = .nil) ∧ Rep o t v
  | .slice _, .nil => True
  | .slice t, .list vs => Reps o t vs
  | .array n t, .list vs => vs.length = n ∧ Reps o t vs
  | .map _ _, .nil => True
  | .map k v, .map ps => Repp o k v ps
  | .named _ (.slice _), .nil => True
  | .named _ (.slice t), .list vs => Reps o t vs
  | .named _ (.array n t), .list vs => vs.length = n ∧ Reps o t vs
  | .named _ (.map _ _), .nil => True
  | .named _ (.map k v), .map ps => Repp o k v ps
  | .struct _ fs, .list vs => Repf o fs vs
  | .marsh _ _, .opaque p => p.length ≤ 4294967294
  | .named _ t, v => t.namedLeaf = true ∧ LeafRep o t v
  | t, v => LeafRep o t v
def Reps (o : Opts) : Ty → Vals → Prop
  | _, .nil => True
  | t, .cons v vs => Rep o t v ∧ Reps o t vs
def Repp (o : Opts) : Ty → Ty → Pairs → Prop
  | _, _, .nil => True
  | kt, vt, .cons k v ps => Rep o kt k ∧ Rep o vt v ∧ Repp o kt vt ps
def Repf (o : Opts) : Tys → Vals → Prop
  | .nil, .nil => True
  | .cons t ts, .cons v vs => Rep o t v ∧ Repf o ts vs
  | _, _ => False
end

theorem isSome_map {α β : Type} (x : Option α) (f : α → β) : (x.map f).isSome = x.isSome := by cases x <;> rfl

mutual
theorem encB_rep (o : Opts) : (v : Val) → (t : Ty) → ((encB o t v).isSome = true ↔ Rep o t v)
  | .nil, t => by
    cases t
    case named nm t' => cases t' <;> simp [encB, encLeaf, Ty.namedLeaf, Rep, LeafRep]
    all_goals (simp [encB, encLeaf, Rep, LeafRep])
  | .any t' v', t => by
    cases t
    case named nm t'' => cases t'' <;> simp [encB, encLeaf, Ty.namedLeaf, Rep, LeafRep]
    case any =>
      have ih := encB_rep o v' t'
      simp only [encB, Rep]
      by_cases h1 : t'.encodable = true <;> by_cases h2 : t' = .any <;> by_cases h3 : (t' = .error ∧ v' = .nil)
      · obtain ⟨h3a, h3b⟩ := h3; simp_all
      · simp_all
      · obtain ⟨h3a, h3b⟩ := h3; simp_all
      · have h4 : (¬ t' = Ty.error ∨ ¬ v' = Val.nil) := by
          by_cases hx : t' = .error
          · exact Or.inr (fun hv => h3 ⟨hx, hv⟩)
          · exact Or.inl hx
        simp [h1, h2, h3, h4, isSome_map, ih]
      · obtain ⟨h3a, h3b⟩ := h3; simp_all
      · simp_all
      · obtain ⟨h3a, h3b⟩ := h3; simp_all
      · simp_all
    all_goals (simp [encB, encLeaf, Rep, LeafRep])
  | .list vs, t => by
    cases t
    case named nm t' =>
      cases t'
      case slice t'' => simp [encB, Rep, isSome_map, encs_rep o vs t'']
      case array n t'' =>
        have ih := encs_rep o vs t''
        simp only [encB, Rep]
        by_cases h : vs.length = n <;> simp [h, ih]
      all_goals (simp [encB, encLeaf, Ty.namedLeaf, Rep, LeafRep])
    case slice t' => simp [encB, Rep, isSome_map, encs_rep o vs t']
    case array n t' =>
      have ih := encs_rep o vs t'
      simp only [encB, Rep]
      by_cases h : vs.length = n <;> simp [h, ih]
    case struct nm fs => simp [encB, Rep, encf_rep o vs fs]
    all_goals (simp [encB, encLeaf, Rep, LeafRep])
  | .map ps, t => by
    cases t
    case named nm t' =>
      cases t'
      case map kt vt => simp [encB, Rep, isSome_map, encp_rep o ps kt vt]
      all_goals (simp [encB, encLeaf, Ty.namedLeaf, Rep, LeafRep])
    case map kt vt => simp [encB, Rep, isSome_map, encp_rep o ps kt vt]
    all_goals (simp [encB, encLeaf, Rep, LeafRep])
  | .opaque p, t => by
    cases t
    case named nm t' => cases t' <;> simp [encB, encLeaf, Ty.namedLeaf, Rep, LeafRep]
    case marsh nm sz =>
      simp only [encB, Rep, limBinaryEnc]
      by_cases h : p.length > 4294967295 - 1 <;> simp [h] <;> omega
    all_goals (simp [encB, encLeaf, Rep, LeafRep])
  | .bool b, t => by
    cases t
    case named nm t' => cases t' <;> simp [encB, Ty.namedLeaf, Rep, ← encLeaf_rep] <;> simp [encLeaf]
    all_goals (simp [encB, Rep, ← encLeaf_rep])
  | .num b, t => by
    cases t
    case named nm t' => cases t' <;> simp [encB, Ty.namedLeaf, Rep, ← encLeaf_rep] <;> simp [encLeaf]
    all_goals (simp [encB, Rep, ← encLeaf_rep])
  | .str b, t => by
    cases t
    case named nm t' => cases t' <;> simp [encB, Ty.namedLeaf, Rep, ← encLeaf_rep] <;> simp [encLeaf]
    all_goals (simp [encB, Rep, ← encLeaf_rep])
  | .bin b, t => by
    cases t
    case named nm t' => cases t' <;> simp [encB, Ty.namedLeaf, Rep, ← encLeaf_rep] <;> simp [encLeaf]
    all_goals (simp [encB, Rep, ← encLeaf_rep])
  | .atom b, t => by
    cases t
    case named nm t' => cases t' <;> simp [encB, Ty.namedLeaf, Rep, ← encLeaf_rep] <;> simp [encLeaf]
    all_goals (simp [encB, Rep, ← encLeaf_rep])
  | .idr a b, t => by
    cases t
    case named nm t' => cases t' <;> simp [encB, Ty.namedLeaf, Rep, ← encLeaf_rep] <;> simp [encLeaf]
    all_goals (simp [encB, Rep, ← encLeaf_rep])
  | .idn a b, t => by
    cases t
    case named nm t' => cases t' <;> simp [encB, Ty.namedLeaf, Rep, ← encLeaf_rep] <;> simp [encLeaf]
    all_goals (simp [encB, Rep, ← encLeaf_rep])
  | .time b, t => by
    cases t
    case named nm t' => cases t' <;> simp [encB, Ty.namedLeaf, Rep, ← encLeaf_rep] <;> simp [encLeaf]
    all_goals (simp [encB, Rep, ← encLeaf_rep])
  | .errText b, t => by
    cases t
    case named nm t' => cases t' <;> simp [encB, Ty.namedLeaf, Rep, ← encLeaf_rep] <;> simp [encLeaf]
    all_goals (simp [encB, Rep, ← encLeaf_rep])
  | .errSent b, t => by
    cases t
    case named nm t' => cases t' <;> simp [encB, Ty.namedLeaf, Rep, ← encLeaf_rep] <;> simp [encLeaf]
    all_goals (simp [encB, Rep, ← encLeaf_rep])
theorem encs_rep (o : Opts) : (vs : Vals) → (t : Ty) → ((encs o t vs).isSome = true ↔ Reps o t vs)
  | .nil, t => by simp [encs, Reps]
  | .cons v vs, t => by
    have h1 := encB_rep o v t
    have h2 := encs_rep o vs t
    simp only [encs, Reps]
    cases ha : encB o t v <;> cases hb : encs o t vs <;> simp_all
theorem encp_rep (o : Opts) : (ps : Pairs) → (kt vt : Ty) → ((encp o kt vt ps).isSome = true ↔ Repp o kt vt ps)
  | .nil, kt, vt => by simp [encp, Repp]
  | .cons k v ps, kt, vt => by
    have h1 := encB_rep o k kt
    have h2 := encB_rep o v vt
    have h3 := encp_rep o ps kt vt
    simp only [encp, Repp]
    cases ha : encB o kt k <;> cases hb : encB o vt v <;> cases hc : encp o kt vt ps <;> simp_all
theorem encf_rep (o : Opts) : (vs : Vals) → (fs : Tys) → ((encf o fs vs).isSome = true ↔ Repf o fs vs)
  | .nil, fs => by cases fs <;> simp [encf, Repf]
  | .cons v vs, fs => by
    cases fs with
    | nil => simp [encf, Repf]
    | cons t ts =>
      have h1 := encB_rep o v t
      have h2 := encf_rep o vs ts
      simp only [encf, Repf]
      cases ha : encB o t v <;> cases hb : encf o ts vs <;> simp_all
end
end ErgoVerif.Edf

import ErgoVerif.Model.RecvQ
import ErgoVerif.Generated.RecvQ
/-!
# C12 / C13 — the receive queue: every frame pushed is handled exactly once, in push order, and none is stranded

Theorems over `Model/RecvQ.lean` for every interleaving of any number of readers and workers.
-/
namespace ErgoVerif.Props.C12RecvQ
open ErgoVerif ErgoVerif.RecvQ

/-- the code as it is: the worker releases the lock before it looks at the queue again (regenerated) -/
abbrev ub : Bool := Gen.RecvQ.unlockBeforeRecheck

/-- mutual exclusion, no stranded frame, nothing lost or duplicated -/
def Inv (c : Cfg) : Prop :=
  (c.locked = true → c.wPop + c.wEmpty = 1) ∧ (c.locked = false → c.wPop + c.wEmpty = 0) ∧ c.wNil = 0 ∧
  (c.q ≠ [] → c.locked = true ∨ c.rPushed > 0 ∨ c.wUnl > 0 ∨ c.wSaw > 0) ∧
  c.handled ++ c.q = c.sent

theorem inv_init : Inv Cfg.init := by simp [Inv, Cfg.init]

theorem step_inv (c : Cfg) (l : Lbl) (c' : Cfg) (h : Inv c) (hs : step true c l = some c') : Inv c' := by
  obtain ⟨h1, h2, h3, h4, h5⟩ := h
  cases l with
  | rPush m =>
    simp only [step] at hs; cases hs
    refine ⟨h1, h2, h3, fun _ => Or.inr (Or.inl (by simp)), by simp [← h5, List.append_assoc]⟩
  | rLockOk =>
    simp only [step] at hs
    split at hs; · cases hs
    split at hs; · cases hs
    rename_i hl; cases hs
    have := h2 (by simpa using hl)
    refine ⟨fun _ => by simp; omega, fun hf => by simp at hf, h3, fun _ => Or.inl rfl, h5⟩
  | rLockFail =>
    simp only [step] at hs
    split at hs; · cases hs
    split at hs
    · rename_i hl; cases hs
      exact ⟨h1, h2, h3, fun _ => Or.inl hl, h5⟩
    · cases hs
  | wPopSome =>
    simp only [step] at hs
    split at hs; · cases hs
    rename_i hw
    split at hs
    · cases hs
    · rename_i m rest hq; cases hs
      have hl : c.locked = true := by
        cases hc : c.locked with
        | true => rfl
        | false => have := h2 hc; omega
      refine ⟨h1, h2, h3, fun _ => Or.inl hl, ?_⟩
      simp [← h5, hq, List.append_assoc]
  | wPopNone =>
    simp only [step] at hs
    split at hs; · cases hs
    split at hs
    · rename_i hq; cases hs
      refine ⟨fun hl => by have := h1 hl; simp; omega, fun hl => by have := h2 hl; simp; omega, h3, fun hne => absurd hq hne, h5⟩
    · cases hs
  | wUnlock =>
    simp only [step, if_true] at hs
    split at hs; · cases hs
    cases hs
    have hl : c.locked = true := by
      cases hc : c.locked with
      | true => rfl
      | false => have := h2 hc; omega
    have := h1 hl
    refine ⟨fun hf => by simp at hf, fun _ => by simp; omega, h3, fun _ => Or.inr (Or.inr (Or.inl (by simp))), h5⟩
  | wItemNil =>
    simp only [step, if_true] at hs
    split at hs; · cases hs
    split at hs
    · rename_i hq; cases hs
      exact ⟨h1, h2, h3, fun hne => absurd hq hne, h5⟩
    · cases hs
  | wItemSome =>
    simp only [step, if_true] at hs
    split at hs; · cases hs
    split at hs
    · cases hs
    · cases hs
      exact ⟨h1, h2, h3, fun _ => Or.inr (Or.inr (Or.inr (by simp))), h5⟩
  | wLockOk =>
    simp only [step] at hs
    split at hs; · cases hs
    split at hs; · cases hs
    rename_i hl; cases hs
    have := h2 (by simpa using hl)
    refine ⟨fun _ => by simp; omega, fun hf => by simp at hf, h3, fun _ => Or.inl rfl, h5⟩
  | wLockFail =>
    simp only [step] at hs
    split at hs; · cases hs
    split at hs
    · rename_i hl; cases hs
      exact ⟨h1, h2, h3, fun _ => Or.inl hl, h5⟩
    · cases hs

theorem reach_inv {ls : List Lbl} {c : Cfg} (h : run (step true) Cfg.init ls = some c) : Inv c :=
  run_inv (Inv := Inv) step_inv inv_init h

/-- the statement, parametric in the code shape -/
def C12_recvq_full (b : Bool) : Prop :=
  ∀ (ls : List Lbl) (c : Cfg), run (step b) Cfg.init ls = some c →
    -- at most one worker is between taking the lock and giving it up
    (c.wPop + c.wEmpty + c.wNil ≤ 1) ∧
    -- frames are handled in push order, none twice, none invented
    (∃ rest, c.sent = c.handled ++ rest) ∧
    -- when every reader and worker has come to rest, every frame pushed has been handled
    (c.quiescent → c.q = [] ∧ c.handled = c.sent)

/-- **Receive queue, for the code as it is**: for every interleaving of any number of link readers and queue workers —
one worker at a time, frames handled exactly once in push order, and no frame is left in the queue without a
worker (no lost wake-up between `Push; Lock` and `Pop; Unlock; Item; Lock`). -/
theorem C12_recvq : C12_recvq_full ub := by
  have hub : ub = true := by decide
  rw [hub]
  intro ls c hr
  obtain ⟨h1, h2, h3, h4, h5⟩ := reach_inv hr
  refine ⟨?_, ⟨c.q, h5.symm⟩, ?_⟩
  · cases hc : c.locked with
    | true => have := h1 hc; omega
    | false => have := h2 hc; omega
  · intro ⟨q1, q2, q3, q4, q5, _⟩
    have hl : c.locked = false := by
      cases hc : c.locked with
      | false => rfl
      | true => have := h1 hc; omega
    have hq : c.q = [] := by
      by_cases hne : c.q = []
      · exact hne
      · rcases h4 hne with h | h | h | h
        · rw [hl] at h; cases h
        · omega
        · omega
        · omega
    exact ⟨hq, by rw [← h5, hq]; simp⟩

/-- The other order (look at the queue while still holding the lock, then unlock and exit) strands a frame: a reader
pushes and fails to get the lock between the worker's look and its unlock. Kept as a regression statement for the
seeded change C12-1. -/
theorem C12_recvq_recheck_under_lock_loses : ¬ C12_recvq_full false := by
  intro h
  have := (h [.rPush 1, .rLockOk, .wPopSome, .wPopNone, .wItemNil, .rPush 2, .rLockFail, .wUnlock]
    ⟨[2], false, [1, 2], [1], 0, 0, 0, 0, 0, 0⟩ (by decide)).2.2 (by decide)
  simp at this

/-- no deadlock: whenever somebody is between two queue operations, some step is enabled -/
theorem C12_recvq_progress (ls : List Lbl) (c : Cfg) (hr : run (step true) Cfg.init ls = some c)
    (hq : ¬ c.quiescent) : ∃ l, (step true c l).isSome = true := by
  obtain ⟨_, _, h3, _, _⟩ := reach_inv hr
  unfold Cfg.quiescent at hq
  by_cases a1 : c.rPushed = 0
  · by_cases a2 : c.wPop = 0
    · by_cases a3 : c.wEmpty = 0
      · by_cases a4 : c.wUnl = 0
        · by_cases a5 : c.wSaw = 0
          · exact absurd ⟨a1, a2, a3, a4, a5, h3⟩ hq
          · cases hl : c.locked with
            | true => exact ⟨.wLockFail, by simp [step, a5, hl]⟩
            | false => exact ⟨.wLockOk, by simp [step, a5, hl]⟩
        · cases hq' : c.q with
          | nil => exact ⟨.wItemNil, by simp [step, a4, hq']⟩
          | cons m r => exact ⟨.wItemSome, by simp [step, a4, hq']⟩
      · exact ⟨.wUnlock, by simp [step, a3]⟩
    · cases hq' : c.q with
      | nil => exact ⟨.wPopNone, by simp [step, a2, hq']⟩
      | cons m r => exact ⟨.wPopSome, by simp [step, a2, hq']⟩
  · cases hl : c.locked with
    | true => exact ⟨.rLockFail, by simp [step, a1, hl]⟩
    | false => exact ⟨.rLockOk, by simp [step, a1, hl]⟩

/-- non-vacuity: two readers, three frames, a worker that goes round the re-check once -/
example : ∃ c, run (step true) Cfg.init
    [.rPush 1, .rLockOk, .rPush 2, .wPopSome, .rLockFail, .wPopSome, .wPopNone, .wUnlock, .rPush 3, .wItemSome, .rLockOk,
     .wLockFail, .wPopSome, .wPopNone, .wUnlock, .wItemNil] = some c ∧ c.quiescent ∧ c.handled = [1, 2, 3] := by
  refine ⟨⟨[], false, [1, 2, 3], [1, 2, 3], 0, 0, 0, 0, 0, 0⟩, by decide, by decide, rfl⟩

end ErgoVerif.Props.C12RecvQ

package main

import (
	"bytes"
	"fmt"
	"io"
	"net"
	"os"
	"reflect"
	"strconv"
	"strings"
	"sync"
	"time"

	"ergo.services/ergo/act"
	"ergo.services/ergo/gen"
	"ergo.services/ergo/net/handshake"
)

// Two (or three) real in-process nodes over loopback TCP, an in-memory registrar (no registrar port is
// opened, so concurrent runs cannot see each other):
//   A  effective cookie: (node cookie, acceptor cookie option) x (node cookie, route cookie option) ->
//      connected iff the effective cookies are equal (Model.CookieSel + C15_connect)
//   B  remote spawn / application start end to end: flags, permission tables (same history in the model),
//      environment exposure observed in the spawned process
//   C  the Join findings on a live node: a recorded main handshake / a recorded Join replayed by a raw TCP
//      client that does not know the cookie

func init() { c15parts = append(c15parts, runC15Nodes) }

// ---- in-memory registrar -----------------------------------------------------------------------

type memReg struct {
	mu     sync.Mutex
	routes map[gen.Atom][]gen.Route
}

type memRegNode struct {
	*memReg
	name gen.Atom
}

func (r *memRegNode) Register(node gen.NodeRegistrar, routes gen.RegisterRoutes) (gen.StaticRoutes, error) {
	r.mu.Lock()
	defer r.mu.Unlock()
	r.name = node.Name()
	var rs []gen.Route
	for _, x := range routes.Routes {
		x.Host = "localhost"
		rs = append(rs, x)
	}
	r.routes[node.Name()] = rs
	return gen.StaticRoutes{}, nil
}
func (r *memRegNode) Resolver() gen.Resolver { return r }
func (r *memRegNode) Resolve(name gen.Atom) ([]gen.Route, error) {
	r.mu.Lock()
	defer r.mu.Unlock()
	if rs, ok := r.routes[name]; ok && len(rs) > 0 {
		return rs, nil
	}
	return nil, gen.ErrNoRoute
}
func (r *memRegNode) ResolveProxy(gen.Atom) ([]gen.ProxyRoute, error) { return nil, gen.ErrNoRoute }
func (r *memRegNode) ResolveApplication(gen.Atom) ([]gen.ApplicationRoute, error) {
	return nil, gen.ErrNoRoute
}
func (r *memRegNode) RegisterProxy(gen.Atom) error                        { return gen.ErrUnsupported }
func (r *memRegNode) UnregisterProxy(gen.Atom) error                      { return gen.ErrUnsupported }
func (r *memRegNode) RegisterApplicationRoute(gen.ApplicationRoute) error { return nil }
func (r *memRegNode) UnregisterApplicationRoute(gen.Atom) error           { return nil }
func (r *memRegNode) Nodes() ([]gen.Atom, error)                          { return nil, gen.ErrUnsupported }
func (r *memRegNode) Config(...string) (map[string]any, error)            { return nil, gen.ErrUnsupported }
func (r *memRegNode) ConfigItem(string) (any, error)                      { return nil, gen.ErrUnsupported }
func (r *memRegNode) Event() (gen.Event, error)                           { return gen.Event{}, gen.ErrUnsupported }
func (r *memRegNode) Info() gen.RegistrarInfo                             { return gen.RegistrarInfo{Server: "in-memory"} }
func (r *memRegNode) Terminate() {
	r.mu.Lock()
	delete(r.routes, r.name)
	r.mu.Unlock()
}
func (r *memRegNode) Version() gen.Version {
	return gen.Version{Name: "memreg", Release: "1", License: gen.LicenseMIT}
}

var nodeSeq int
var portBase = 21000 + (os.Getpid()%250)*100

type nodeSpec struct {
	maxSize           int
	cookie, accCookie string
	flags             gen.NetworkFlags
	accFlags          gen.NetworkFlags
	security          gen.SecurityOptions
	env               map[gen.Env]any
	apps              []gen.ApplicationBehavior
}

func startNetNode(reg *memReg, sp nodeSpec) (gen.Node, uint16, error) {
	nodeSeq++
	name := fmt.Sprintf("verifc15n%d_%d@localhost", os.Getpid(), nodeSeq)
	var opts gen.NodeOptions
	opts.Network.Cookie = sp.cookie
	opts.Network.Flags = sp.flags
	opts.Network.MaxMessageSize = sp.maxSize
	opts.Network.Registrar = &memRegNode{memReg: reg}
	port := uint16(portBase + (nodeSeq*3)%90)
	opts.Network.Acceptors = []gen.AcceptorOptions{{Host: "localhost", Port: port, PortRange: port + 60, Cookie: sp.accCookie, Flags: sp.accFlags}}
	opts.Security = sp.security
	opts.Env = sp.env
	opts.Applications = sp.apps
	nd, err := quietNode(name, opts)
	if err != nil {
		return nil, 0, err
	}
	info, err := nd.Network().Info()
	if err != nil || len(info.Acceptors) == 0 {
		nd.StopForce()
		return nil, 0, fmt.Errorf("no acceptor: %v", err)
	}
	_, p, _ := net.SplitHostPort(info.Acceptors[0].Interface)
	pn, _ := strconv.Atoi(p)
	return nd, uint16(pn), nil
}

func waitGone(nd gen.Node, peer gen.Atom) {
	for i := 0; i < 1000; i++ {
		if _, err := nd.Network().Node(peer); err != nil {
			return
		}
		time.Sleep(5 * time.Millisecond)
	}
}

type c15worker struct{ act.Actor }

func factoryC15Worker() gen.ProcessBehavior { return &c15worker{} }

type c15app struct{}

func (a *c15app) Load(node gen.Node, args ...any) (gen.ApplicationSpec, error) {
	return gen.ApplicationSpec{Name: "c15app", Group: []gen.ApplicationMemberSpec{{Name: "c15member", Factory: factoryC15Worker}}}, nil
}
func (a *c15app) Start(mode gen.ApplicationMode) {}
func (a *c15app) Terminate(reason error)         {}

func runC15Nodes(c *Ctx) {
	r := c.R
	reg := &memReg{routes: map[gen.Atom][]gen.Route{}}
	cookieNum := map[string]int{"": 0, "n1": 1, "n2": 2, "a1": 3, "zz": 4}
	// ---------------- A: effective cookies -------------------------------------------------------------
	type combo struct{ yNode, yAcc, xNode, xRoute string }
	var combos []combo
	for _, yn := range []string{"n1", "n2"} {
		for _, ya := range []string{"", "a1"} {
			for _, xn := range []string{"n1", "a1"} {
				for _, xr := range []string{"", "a1", "n1", "n2", "zz"} {
					combos = append(combos, combo{yn, ya, xn, xr})
				}
			}
		}
	}
	var lines, impl []string
	var cs []combo
	type pairKey struct{ yn, ya, xn string }
	type pair struct {
		x, y gen.Node
		port uint16
	}
	pairs := map[pairKey]*pair{}
	defer func() {
		for _, p := range pairs {
			p.x.StopForce()
			p.y.StopForce()
		}
	}()
	quickSkip := 0
	for _, cb := range combos {
		if !c.Thorough() && (cb.xRoute == "n2" || cb.xRoute == "zz") && c.Rng.Chance(1, 2) {
			quickSkip++
			continue
		}
		k := pairKey{cb.yNode, cb.yAcc, cb.xNode}
		p, ok := pairs[k]
		if !ok {
			y, port, err := startNetNode(reg, nodeSpec{cookie: cb.yNode, accCookie: cb.yAcc})
			if err != nil {
				r.Note("c15 nodes: cannot start node: %v (inconclusive)", err)
				r.Count("nodes.inconclusive")
				continue
			}
			x, _, err := startNetNode(reg, nodeSpec{cookie: cb.xNode})
			if err != nil {
				y.StopForce()
				r.Note("c15 nodes: cannot start node: %v (inconclusive)", err)
				r.Count("nodes.inconclusive")
				continue
			}
			p = &pair{x, y, port}
			pairs[k] = p
		}
		yInfo, _ := p.y.Network().Info()
		route := gen.NetworkRoute{Route: gen.Route{Host: "localhost", Port: p.port, HandshakeVersion: yInfo.HandshakeVersion, ProtoVersion: yInfo.ProtoVersion}, Cookie: cb.xRoute}
		if cb.xRoute == "" {
			// peer name check after the handshake (network.connect): dialling Y's acceptor under another name must fail
			// even with the right cookie, and must leave no connection behind
			wrong := gen.Atom("somebodyelse@localhost")
			if _, e := p.x.Network().GetNodeWithRoute(wrong, route); e == nil {
				r.Violation("C15/peer-name-not-checked", fmt.Sprintf("connected to %s although the peer introduced itself as %s", wrong, p.y.Name()), cb)
			} else {
				r.Count("nodes.wrong-name.refused")
			}
			for _, nn := range p.x.Network().Nodes() {
				if nn == wrong {
					r.Violation("C15/peer-name-not-checked", "a connection under the wrong name is listed", cb)
				}
			}
			waitGone(p.y, p.x.Name())
		}
		rn, err := p.x.Network().GetNodeWithRoute(p.y.Name(), route)
		connected := err == nil
		if connected {
			// both ends must list each other
			okY := false
			for i := 0; i < 1000 && !okY; i++ {
				for _, nn := range p.y.Network().Nodes() {
					if nn == p.x.Name() {
						okY = true
					}
				}
				if !okY {
					time.Sleep(5 * time.Millisecond)
				}
			}
			if !okY {
				r.Violation("C15/one-sided-connection", "initiator connected but the acceptor does not list the peer", cb)
			}
			rn.Disconnect()
			waitGone(p.x, p.y.Name())
			waitGone(p.y, p.x.Name())
		}
		effY := cb.yAcc
		if effY == "" {
			effY = cb.yNode
		}
		effX := cb.xRoute
		if effX == "" {
			effX = cb.xNode
		}
		r.Case(fmt.Sprintf("nodes:%+v", cb), cb.yAcc != "" || cb.xRoute != "")
		r.Count(fmt.Sprintf("nodes.cookie.acc-%v.route-%v.connected-%v", cb.yAcc != "", cb.xRoute != "", connected))
		// independent oracle of the property
		if connected != (effX == effY) {
			sig := "C15/connected-with-different-cookies"
			if !connected {
				sig = "C15/refused-with-equal-cookies"
			}
			if cb.yAcc != "" && ((connected && effX == cb.yNode) || (!connected && effX == cb.yAcc)) {
				sig = "C15/acceptor-cookie-ignored"
			}
			r.Violation(sig, fmt.Sprintf("node Y (cookie %q, acceptor cookie %q), node X (cookie %q, route cookie %q): connected=%v (%v)", cb.yNode, cb.yAcc, cb.xNode, cb.xRoute, connected, err), cb)
		}
		lines = append(lines, fmt.Sprintf("cookie %d %d 0", cookieNum[cb.yNode], cookieNum[cb.yAcc]), fmt.Sprintf("cookie %d 0 %d", cookieNum[cb.xNode], cookieNum[cb.xRoute]))
		impl = append(impl, fmt.Sprint(connected))
		cs = append(cs, cb)
	}
	out, err := Model("handshake", lines)
	if err != nil {
		r.Disagree("c15-nodes-model", err.Error(), nil)
		return
	}
	for i, cb := range cs {
		a := strings.Fields(out[2*i])[0]
		b := strings.Fields(out[2*i+1])[1]
		if fmt.Sprint(a == b) != impl[i] {
			r.Disagree("c15-nodes-cookie", fmt.Sprintf("model: acceptor effective %s, route effective %s; implementation connected=%s", a, b, impl[i]), cb)
			break
		}
	}
	// ---------------- A': Acceptor.SetCookie after start ------------------------------------------------
	runC15AcceptorSet(c, reg)
	// ---------------- B: spawn / application start end to end ----------------------------------------
	runC15Requests(c, reg)
	// ---------------- C: Join findings on a live node ---------------------------------------------------
	runC15LiveJoin(c, reg)
}

// runC15AcceptorSet: the acceptor's cookie changed at run time through gen.Acceptor.SetCookie. The property wants the
// cookie set last; the model (CookieSel.startAcc/setCookie/handshakeCookie) follows the regenerated shape of the accept
// loop (options read per connection, or — before the repair of D10b — once before the loop). Replayed on every run.
func runC15AcceptorSet(c *Ctx, reg *memReg) {
	r := c.R
	y, port, err := startNetNode(reg, nodeSpec{cookie: "n1"})
	if err != nil {
		r.Count("nodes.inconclusive")
		return
	}
	defer y.StopForce()
	x, _, err := startNetNode(reg, nodeSpec{cookie: "zz"})
	if err != nil {
		r.Count("nodes.inconclusive")
		return
	}
	defer x.StopForce()
	accs, err := y.Network().Acceptors()
	if err != nil || len(accs) == 0 {
		r.Count("nodes.inconclusive")
		return
	}
	if os.Getenv("VERIF_DEBUG_SETCOOKIE") != "" {
		fmt.Fprintf(os.Stderr, "setcookie: y=%s port=%d acceptors=%d before=%q\n", y.Name(), port, len(accs), accs[0].Cookie())
	}
	// accept() takes its snapshot of the acceptor's fields when its goroutine first runs; give it time to have done so
	// (on a loaded machine a SetCookie issued within milliseconds of the node's start still wins the race)
	time.Sleep(300 * time.Millisecond)
	accs[0].SetCookie("a1")
	reported := accs[0].Cookie()
	yInfo, _ := y.Network().Info()
	try := func(cookie string) bool {
		route := gen.NetworkRoute{Route: gen.Route{Host: "localhost", Port: port, HandshakeVersion: yInfo.HandshakeVersion, ProtoVersion: yInfo.ProtoVersion}, Cookie: cookie}
		rn, err := x.Network().GetNodeWithRoute(y.Name(), route)
		if err != nil {
			return false
		}
		rn.Disconnect()
		waitGone(x, y.Name())
		waitGone(y, x.Name())
		return true
	}
	withNew, withOld := try("a1"), try("n1")
	r.Case("nodes-acceptor-setcookie", true)
	r.Count(fmt.Sprintf("nodes.setcookie.reported-%s.new-%v.old-%v", reported, withNew, withOld))
	// model: started with (node cookie 1, no acceptor option), SetCookie 3: which cookie is the next handshake checked
	// against, what does Cookie() report (CookieSel.handshakeCookie over the regenerated accept-loop shape)
	mo, merr := Model("handshake", []string{"accset 1 0 3"})
	if merr != nil || len(mo) != 1 {
		r.Disagree("c15-nodes-setcookie", fmt.Sprintf("model driver: %v", merr), nil)
		return
	}
	var mHs, mField int
	fmt.Sscanf(mo[0], "%d %d", &mHs, &mField)
	wantNew, wantOld := mHs == 3, mHs == 1
	if (reported == "a1") != (mField == 3) || withNew != wantNew || withOld != wantOld {
		r.Disagree("c15-nodes-setcookie", fmt.Sprintf("model (CookieSel.handshakeCookie): handshake cookie %d, Cookie() %d (1 = node cookie, 3 = the cookie set); implementation: Cookie()=%q, connect with the cookie set=%v, with the node cookie=%v", mHs, mField, reported, withNew, withOld), nil)
	}
	// … and back to "no cookie of its own": the node's cookie is the one peers are checked against again (not the empty
	// string: an acceptor without a cookie must not accept peers that know no secret)
	accs[0].SetCookie("")
	reported2 := accs[0].Cookie()
	backNew, backOld := try("a1"), try("n1")
	mo2, merr2 := Model("handshake", []string{"accset 1 0 3,0"})
	if merr2 == nil && len(mo2) == 1 {
		var m2Hs, m2Field int
		fmt.Sscanf(mo2[0], "%d %d", &m2Hs, &m2Field)
		if (reported2 == "") != (m2Field == 0) || backNew != (m2Hs == 3) || backOld != (m2Hs == 1) {
			r.Disagree("c15-nodes-setcookie", fmt.Sprintf("after SetCookie(\"\"): model handshake cookie %d, Cookie() %d; implementation: Cookie()=%q, connect with the cookie set before=%v, with the node cookie=%v", m2Hs, m2Field, reported2, backNew, backOld), nil)
		}
	}
	r.Count(fmt.Sprintf("nodes.setcookie-empty.reported-%q.old-%v.node-%v", reported2, backNew, backOld))
	if backNew || !backOld {
		r.Violation("C15/acceptor-empty-cookie", fmt.Sprintf("after Acceptor.SetCookie(\"\") the acceptor must authenticate with the node cookie \"n1\": a peer presenting the previous acceptor cookie connected=%v, a peer presenting the node cookie connected=%v", backNew, backOld), nil)
	}
	if !withNew || withOld {
		r.Violation("C15/acceptor-setcookie-ignored", fmt.Sprintf("after Acceptor.SetCookie(\"a1\") on an acceptor started with the node cookie \"n1\": Cookie() reports %q, a peer presenting \"a1\" connected=%v, a peer presenting \"n1\" connected=%v", reported, withNew, withOld), nil)
	}
}

func flags3(f gen.NetworkFlags) string {
	return fmt.Sprintf("%d%d%d", b2i(f.Enable), b2i(f.EnableRemoteSpawn), b2i(f.EnableRemoteApplicationStart))
}

func runC15Requests(c *Ctx, reg *memReg) {
	r := c.R
	type scen struct {
		yFlags  gen.NetworkFlags
		expose  bool
		exposeA bool
	}
	all := gen.DefaultNetworkFlags
	noSpawn := all
	noSpawn.EnableRemoteSpawn = false
	noApp := all
	noApp.EnableRemoteApplicationStart = false
	scens := []scen{{all, true, false}, {all, false, true}, {noSpawn, true, true}, {noApp, false, false}}
	if !c.Thorough() {
		scens = scens[:3]
	}
	for si, sc := range scens {
		y, _, err := startNetNode(reg, nodeSpec{cookie: "k", flags: sc.yFlags, maxSize: 222222 + si, security: gen.SecurityOptions{ExposeEnvInfo: true}})
		if err != nil {
			r.Count("nodes.inconclusive")
			continue
		}
		x, _, err := startNetNode(reg, nodeSpec{cookie: "k", maxSize: 111111 + si, env: map[gen.Env]any{"K1": "v1", "K2": "v2"},
			security: gen.SecurityOptions{ExposeEnvRemoteSpawn: sc.expose, ExposeEnvRemoteApplicationStart: sc.exposeA}})
		if err != nil {
			y.StopForce()
			r.Count("nodes.inconclusive")
			continue
		}
		func() {
			defer x.StopForce()
			defer y.StopForce()
			rn, err := x.Network().GetNode(y.Name())
			if err != nil {
				r.Violation("C15/refused-with-equal-cookies", "nodes with the same cookie cannot connect: "+err.Error(), nil)
				return
			}
			// agreement as seen by the nodes
			ri := rn.Info()
			if ri.NetworkFlags != sc.yFlags {
				r.Violation("C15/agreement", fmt.Sprintf("X sees Y's flags as %+v, Y configured %+v", ri.NetworkFlags, sc.yFlags), nil)
			}
			if ri.MaxMessageSize != 222222+si || ri.Node != y.Name() {
				r.Violation("C15/agreement", fmt.Sprintf("X sees Y as %s with max message size %d, Y is %s configured with %d", ri.Node, ri.MaxMessageSize, y.Name(), 222222+si), nil)
			}
			var yr gen.RemoteNode
			for i := 0; i < 1000; i++ { // the acceptor registers the connection after the initiator's last message
				if yr, err = y.Network().Node(x.Name()); err == nil {
					break
				}
				time.Sleep(5 * time.Millisecond)
			}
			if err == nil {
				yi := yr.Info()
				if yi.NetworkFlags != all || yr.Creation() != x.Creation() || rn.Creation() != y.Creation() || yi.MaxMessageSize != 111111+si || yi.Node != x.Name() {
					r.Violation("C15/agreement", fmt.Sprintf("Y's view of X (flags/creation/max size/name) differs from X's configuration: %+v", yi), nil)
				}
				r.Count("nodes.agreement-checked")
			} else {
				r.Violation("C15/one-sided-connection", "X is connected, Y does not know X", nil)
			}
			peers := []gen.Atom{x.Name(), "other1@host", "other2@host"} // model peers 0,1,2
			nw := y.Network()
			model := []string{"reset"}
			expect := []string{"ok"}
			// a short permission history per scenario, the D11 pattern included
			type op struct {
				kind  string
				nodes []int
			}
			hist := [][]op{
				{{"es", []int{0}}, {"ea", []int{1}}, {"da", []int{1}}},
				{{"es", []int{1, 2}}, {"ea", nil}, {"ds", []int{2}}},
				{{"es", nil}, {"ds", []int{1}}, {"ea", []int{0, 1}}, {"da", []int{1}}},
				{{"es", []int{0}}, {"ds", []int{0}}, {"ea", []int{0}}},
			}[si%4]
			appName, lerr := y.ApplicationLoad(&c15app{})
			if lerr != nil {
				r.Disagree("c15-nodes-setup", "ApplicationLoad: "+lerr.Error(), nil)
				return
			}
			for _, o := range hist {
				var atoms []gen.Atom
				ns := "-"
				var nss []string
				for _, p := range o.nodes {
					atoms = append(atoms, peers[p])
					nss = append(nss, fmt.Sprint(p))
				}
				if len(nss) > 0 {
					ns = strings.Join(nss, ",")
				}
				var e error
				switch o.kind {
				case "es":
					e = nw.EnableSpawn("w", factoryC15Worker, atoms...)
					model = append(model, "es 0 1 "+ns)
				case "ds":
					e = nw.DisableSpawn("w", atoms...)
					model = append(model, "ds 0 "+ns)
				case "ea":
					e = nw.EnableApplicationStart(appName, atoms...)
					model = append(model, "ea 0 "+ns)
				case "da":
					e = nw.DisableApplicationStart(appName, atoms...)
					model = append(model, "da 0 "+ns)
				}
				expect = append(expect, permErrName(e))
			}
			// the requests
			envX := x.EnvList()
			pid, errS := rn.Spawn("w", gen.ProcessOptions{})
			gotS := ""
			switch {
			case errS == nil:
				info, e := y.ProcessInfo(pid)
				envIDs := "-"
				if e == nil && len(info.Env) > 0 {
					if reflect.DeepEqual(info.Env, envX) {
						envIDs = "1,2"
					} else {
						envIDs = "9"
					}
				}
				gotS = "spawned 1 " + envIDs
			case errS == gen.ErrNotAllowed && ri.NetworkFlags.Enable && !ri.NetworkFlags.EnableRemoteSpawn:
				gotS = "refused"
			default:
				gotS = "error " + permErrName(errS)
			}
			model = append(model, fmt.Sprintf("rs %s %s 0 0 %d 1,2", flags3(ri.NetworkFlags), flags3(sc.yFlags), b2i(sc.expose)))
			expect = append(expect, gotS)
			_, errU := rn.Spawn("unknown-name", gen.ProcessOptions{})
			if ri.NetworkFlags.EnableRemoteSpawn {
				model = append(model, fmt.Sprintf("rs %s %s 7 0 0 -", flags3(ri.NetworkFlags), flags3(sc.yFlags)))
				expect = append(expect, "error "+permErrName(errU))
			}
			errA := rn.ApplicationStart(appName, gen.ApplicationOptions{})
			gotA := ""
			switch {
			case errA == nil:
				// the application's member carries the environment that travelled
				envIDs := "-"
				if ai, e := y.ApplicationInfo(appName); e == nil && len(ai.Group) > 0 {
					if pi, e := y.ProcessInfo(ai.Group[0]); e == nil && len(pi.Env) > 0 {
						if reflect.DeepEqual(pi.Env, envX) {
							envIDs = "1,2"
						} else {
							envIDs = "9"
						}
					}
				}
				if sc.exposeA != (envIDs != "-") {
					r.Violation("C15/env-exposure", fmt.Sprintf("ExposeEnvRemoteApplicationStart=%v but the started member has env ids %s", sc.exposeA, envIDs), nil)
				}
				gotA = "started " + envIDs
			case errA == gen.ErrNotAllowed && ri.NetworkFlags.Enable && !ri.NetworkFlags.EnableRemoteApplicationStart:
				gotA = "refused"
			default:
				gotA = "error " + permErrName(errA)
			}
			model = append(model, fmt.Sprintf("ra %s %s 0 0 %d 1,2", flags3(ri.NetworkFlags), flags3(sc.yFlags), b2i(sc.exposeA)))
			expect = append(expect, gotA)
			if errS == gen.ErrTimeout || errU == gen.ErrTimeout || errA == gen.ErrTimeout {
				// a request timed out (5 s): its reply was lost or the machine is too slow — no verdict for this scenario
				r.Count("nodes.inconclusive-timeout")
				return
			}
			r.Count("nodes.request.spawn." + strings.Fields(gotS)[0])
			r.Count("nodes.request.app." + strings.Fields(gotA)[0])
			r.Case(fmt.Sprintf("nodes-req:%d:%v", si, hist), true)
			// independent oracle: allowed only if the history justifies it and the flags permit
			just := func(spawn bool) bool {
				for i := len(hist) - 1; i >= 0; i-- {
					o := hist[i]
					if !covers(o.nodes, 0) {
						continue
					}
					if spawn && o.kind == "ds" || !spawn && o.kind == "da" {
						return false
					}
					if spawn && o.kind == "es" || !spawn && o.kind == "ea" {
						return true
					}
				}
				return false
			}
			if errS == nil && (!just(true) || !sc.yFlags.EnableRemoteSpawn) {
				r.Violation("C15/spawn-not-permitted", fmt.Sprintf("remote spawn succeeded; history %v, flags %+v", hist, sc.yFlags), nil)
			}
			if errA == nil && (!just(false) || !sc.yFlags.EnableRemoteApplicationStart) {
				r.Violation("C15/appstart-not-permitted", fmt.Sprintf("remote application start succeeded; history %v, flags %+v", hist, sc.yFlags), nil)
			}
			if errS == nil {
				if info, e := y.ProcessInfo(pid); e == nil {
					if sc.expose != (len(info.Env) > 0) {
						r.Violation("C15/env-exposure", fmt.Sprintf("ExposeEnvRemoteSpawn=%v but the spawned process has env %v", sc.expose, info.Env), nil)
					}
				}
			}
			out, err := Model("perm", model)
			if err != nil {
				r.Disagree("c15-nodes-model", err.Error(), nil)
				return
			}
			for i := range model {
				if out[i] != expect[i] {
					r.Disagree("c15-nodes-requests", fmt.Sprintf("scenario %d line %q: model %q, implementation %q", si, model[i], out[i], expect[i]), map[string]interface{}{"lines": model})
					return
				}
			}
		}()
	}
}

// tcpProxy forwards one connection to target and records both directions.
type tcpProxy struct {
	l        net.Listener
	mu       sync.Mutex
	toTarget bytes.Buffer
	toClient bytes.Buffer
}

func newProxy(target string) (*tcpProxy, error) {
	l, err := net.Listen("tcp4", "127.0.0.1:0")
	if err != nil {
		return nil, err
	}
	p := &tcpProxy{l: l}
	go func() {
		for {
			cl, err := l.Accept()
			if err != nil {
				return
			}
			sv, err := net.Dial("tcp4", target)
			if err != nil {
				cl.Close()
				continue
			}
			cp := func(dst, src net.Conn, rec *bytes.Buffer) {
				buf := make([]byte, 65536)
				for {
					n, err := src.Read(buf)
					if n > 0 {
						p.mu.Lock()
						if rec.Len() < 1<<20 {
							rec.Write(buf[:n])
						}
						p.mu.Unlock()
						dst.Write(buf[:n])
					}
					if err != nil {
						dst.Close()
						return
					}
				}
			}
			go cp(sv, cl, &p.toTarget)
			go cp(cl, sv, &p.toClient)
		}
	}()
	return p, nil
}

func (p *tcpProxy) port() uint16 { return uint16(p.l.Addr().(*net.TCPAddr).Port) }

// firstFrames decodes the handshake messages at the beginning of a recorded stream.
func firstFrames(b []byte, n int) []any {
	var out []any
	for len(out) < n && len(b) >= 6 && b[0] == 87 && b[1] == 1 {
		l := int(b[2])<<24 | int(b[3])<<16 | int(b[4])<<8 | int(b[5])
		if len(b) < 6+l {
			break
		}
		ms, err := splitFrames(b[:6+l])
		if err != nil || len(ms) != 1 {
			break
		}
		out = append(out, ms[0])
		b = b[6+l:]
	}
	return out
}

func runC15LiveJoin(c *Ctx, reg *memReg) {
	r := c.R
	y, yport, err := startNetNode(reg, nodeSpec{cookie: "live-secret"})
	if err != nil {
		r.Count("nodes.inconclusive")
		return
	}
	defer y.StopForce()
	x, _, err := startNetNode(reg, nodeSpec{cookie: "live-secret"})
	if err != nil {
		r.Count("nodes.inconclusive")
		return
	}
	defer x.StopForce()
	px, err := newProxy(fmt.Sprintf("127.0.0.1:%d", yport))
	if err != nil {
		r.Count("nodes.inconclusive")
		return
	}
	defer px.l.Close()
	yInfo, _ := y.Network().Info()
	route := gen.NetworkRoute{Route: gen.Route{Host: "127.0.0.1", Port: px.port(), HandshakeVersion: yInfo.HandshakeVersion, ProtoVersion: yInfo.ProtoVersion}}
	rn, err := x.Network().GetNodeWithRoute(y.Name(), route)
	if err != nil {
		r.Note("live join: honest connection through the recording proxy failed: %v (inconclusive)", err)
		r.Count("nodes.inconclusive")
		return
	}
	time.Sleep(50 * time.Millisecond)
	px.mu.Lock()
	up := firstFrames(px.toTarget.Bytes(), 3)
	down := firstFrames(px.toClient.Bytes(), 3)
	px.mu.Unlock()
	// ---- type flaw under the name of the LIVE peer: connection.Join must refuse the foreign id ----
	if len(up) > 0 && len(down) > 0 {
		h1, o1 := up[0].(handshake.MessageHello)
		h2, o2 := down[0].(handshake.MessageHello)
		if o1 && o2 {
			c4, err := net.Dial("tcp4", fmt.Sprintf("127.0.0.1:%d", yport))
			if err == nil {
				sc := &scriptConn{}
				handshake.VerifWriteMessage(sc, handshake.MessageJoin{Node: x.Name(), ConnectionID: h2.Salt, Salt: h1.Digest, Digest: h2.Digest})
				c4.Write(sc.wrote.Bytes())
				v, _, rerr := handshake.VerifReadMessage(c4, 2*time.Second, nil)
				_, acc := v.(handshake.MessageAccept)
				stays := false
				if acc && rerr == nil {
					c4.SetReadDeadline(time.Now().Add(1500 * time.Millisecond))
					var one [1]byte
					_, e := c4.Read(one[:])
					ne, isNet := e.(net.Error)
					stays = e == nil || (isNet && ne.Timeout())
				}
				c4.Close()
				r.Case("nodes-live-join-typeflaw-live-name", true)
				r.Count(fmt.Sprintf("nodes.live-join.typeflaw-live-name.link-stays-%v", stays))
				if stays {
					r.Violation("C15/join-foreign-id-joined", "a forged Join naming a live peer but carrying a foreign connection id was given a link in that peer's connection", nil)
				}
			}
		}
	}
	// ---- D24 proper: a Join recorded for the LIVE connection, replayed by someone without the cookie ----
	var connID string
	var recordedJoin []byte
	for _, m := range down {
		if am, ok := m.(handshake.MessageAccept); ok {
			connID = am.ID // travels in clear in the main handshake
		}
	}
	if connID != "" {
		// the honest node X adds a link to its connection (this is what an eavesdropper records)
		hs := handshake.Create(handshake.Options{})
		c1, err := net.Dial("tcp4", fmt.Sprintf("127.0.0.1:%d", yport))
		if err == nil {
			rc := &recConn{Conn: c1}
			_, jerr := hs.Join(&hsNode{name: x.Name(), creation: x.Creation()}, rc, connID, gen.HandshakeOptions{Cookie: "live-secret"})
			recorded := append([]byte(nil), rc.rec.Bytes()...)
			c1.Close()
			if jerr == nil && len(recorded) > 0 {
				recordedJoin = recorded
				replayJoin := func(b []byte) (accepted, stays bool) {
					c2, err := net.Dial("tcp4", fmt.Sprintf("127.0.0.1:%d", yport))
					if err != nil {
						return false, false
					}
					defer c2.Close()
					c2.Write(b)
					v, _, rerr := handshake.VerifReadMessage(c2, 2*time.Second, nil)
					if _, ok := v.(handshake.MessageAccept); !ok || rerr != nil {
						return false, false
					}
					// still open after the reply = the link sits in the victim's pool
					c2.SetReadDeadline(time.Now().Add(300 * time.Millisecond))
					var one [1]byte
					_, e := c2.Read(one[:])
					ne, isNet := e.(net.Error)
					return true, e == nil || (isNet && ne.Timeout())
				}
				acc, stays := replayJoin(recorded)
				// control: the same message with one digest character changed is refused
				bad := append([]byte(nil), recorded...)
				bad[len(bad)-1] ^= 1
				accBad, _ := replayJoin(bad)
				r.Case("nodes-live-join-replay", true)
				r.Count(fmt.Sprintf("nodes.live-join.replay.accepted-%v.link-stays-%v.control-accepted-%v", acc, stays, accBad))
				if accBad {
					r.Violation("C15/join-forged", "a Join with a wrong digest was accepted by a live node", nil)
				}
				if acc {
					what := fmt.Sprintf("%d recorded bytes of an honest Join, replayed over a new TCP connection by a client that does not know the cookie, were answered with Accept by a live node", len(recorded))
					if stays {
						what += "; the link stays open in the victim's pool of the connection with " + string(x.Name())
					}
					r.Violation("C15/join-replay", what, map[string]interface{}{"bytes": hexs(recorded), "link_stays_open": stays})
				}
			} else {
				r.Note("live join: honest Join failed: %v (inconclusive)", jerr)
				r.Count("nodes.inconclusive")
			}
		}
	}
	rn.Disconnect()
	waitGone(y, x.Name())
	waitGone(x, y.Name())
	var hello1, hello2 handshake.MessageHello
	ok1, ok2 := false, false
	if len(up) > 0 {
		hello1, ok1 = up[0].(handshake.MessageHello)
	}
	if len(down) > 0 {
		hello2, ok2 = down[0].(handshake.MessageHello)
	}
	if !ok1 || !ok2 {
		r.Note("live join: could not decode the recorded handshake (inconclusive)")
		r.Count("nodes.inconclusive")
		return
	}
	// the eavesdropper knows: hello1.Salt, hello1.Digest, hello2.Salt, hello2.Digest — not the cookie
	evil := gen.Atom("intruder@nowhere")
	conn, err := net.Dial("tcp4", fmt.Sprintf("127.0.0.1:%d", yport))
	if err != nil {
		r.Count("nodes.inconclusive")
		return
	}
	defer conn.Close()
	join := handshake.MessageJoin{Node: evil, ConnectionID: hello2.Salt, Salt: hello1.Digest, Digest: hello2.Digest}
	sc := &scriptConn{}
	handshake.VerifWriteMessage(sc, join)
	conn.Write(sc.wrote.Bytes())
	conn.SetReadDeadline(time.Now().Add(2 * time.Second))
	v, _, rerr := handshake.VerifReadMessage(conn, 2*time.Second, nil)
	_, accepted := v.(handshake.MessageAccept)
	listed := false
	for i := 0; i < 60 && !listed; i++ {
		for _, nn := range y.Network().Nodes() {
			if nn == evil {
				listed = true
			}
		}
		if !listed {
			time.Sleep(5 * time.Millisecond)
		}
	}
	r.Case("nodes-live-join-typeflaw", true)
	r.Count(fmt.Sprintf("nodes.live-join.typeflaw.accepted-%v.listed-%v", accepted && rerr == nil, listed))
	if accepted && rerr == nil {
		what := "a raw TCP client that only eavesdropped one main handshake sent Join{ConnectionID: acceptor salt, Salt: initiator digest, Digest: acceptor Hello digest} and received the Accept reply"
		r.Violation("C15/join-typeflaw", what, map[string]interface{}{"join": fmt.Sprintf("%+v", join)})
	}
	// Model.NodeAccept / C15_join_node_level: a Join result never registers a connection
	if listed {
		r.Violation("C15/join-registers-connection", fmt.Sprintf("after a forged Join the victim node lists a connection with %s (name chosen by the intruder)", evil), map[string]interface{}{"join": fmt.Sprintf("%+v", join)})
	}
	// … and the recorded Join of the connection that has meanwhile been closed is not joined to anything any more
	if len(recordedJoin) > 0 {
		c3, err := net.Dial("tcp4", fmt.Sprintf("127.0.0.1:%d", yport))
		if err == nil {
			defer c3.Close()
			c3.Write(recordedJoin)
			v, _, rerr := handshake.VerifReadMessage(c3, 2*time.Second, nil)
			_, acc := v.(handshake.MessageAccept)
			stays := false
			if acc && rerr == nil {
				c3.SetReadDeadline(time.Now().Add(1500 * time.Millisecond))
				var one [1]byte
				_, e := c3.Read(one[:])
				ne, isNet := e.(net.Error)
				stays = e == nil || (isNet && ne.Timeout())
			}
			r.Case("nodes-live-join-after-disconnect", true)
			r.Count(fmt.Sprintf("nodes.live-join.after-disconnect.link-stays-%v", stays))
			if stays {
				r.Violation("C15/join-after-disconnect", "a recorded Join replayed after its connection was closed is still given a live link", nil)
			}
		}
	}
	_ = io.EOF
}

package main

import (
	"fmt"
	"go/ast"
	"sort"
	"strings"
)

// Generated/Order.lean: where the message options a process (or meta-process) hands to the network get their
// KeepNetworkOrder flag (node/process.go, node/meta.go): every gen.MessageOptions literal takes it from the process's
// own setting (p.keeporder / m.p.keeporder), and nothing assigns to the field of an options value afterwards.

func init() {
	generators = append(generators, generator{name: "Order", run: genOrder,
		fallback: "namespace ErgoVerif.Gen.Order\ndef keepOrderFromSetting : Nat := 0\ndef keepOrderOther : List String := [\"?\"]\nend ErgoVerif.Gen.Order\n"})
}

func genOrder() (string, error) {
	fromSetting := 0
	var other []string
	for _, file := range []string{"node/process.go", "node/meta.go"} {
		f, err := parseFile(file)
		if err != nil {
			return "", err
		}
		for _, d := range f.Decls {
			fd, ok := d.(*ast.FuncDecl)
			if !ok || fd.Body == nil {
				continue
			}
			ast.Inspect(fd.Body, func(n ast.Node) bool {
				switch x := n.(type) {
				case *ast.KeyValueExpr:
					if selName(x.Key) == "KeepNetworkOrder" {
						v := selName(x.Value)
						if v == "p.keeporder" || v == "m.p.keeporder" {
							fromSetting++
						} else {
							other = append(other, fmt.Sprintf("%s:%s literal %s", file, fd.Name.Name, v))
						}
					}
				case *ast.AssignStmt:
					for _, l := range x.Lhs {
						if strings.HasSuffix(selName(l), ".KeepNetworkOrder") {
							other = append(other, fmt.Sprintf("%s:%s assigns %s", file, fd.Name.Name, selName(l)))
						}
					}
				}
				return true
			})
		}
	}
	if fromSetting == 0 {
		return "", fmt.Errorf("no gen.MessageOptions literal with KeepNetworkOrder found in node/process.go, node/meta.go")
	}
	sort.Strings(other)
	q := make([]string, len(other))
	for i, o := range other {
		q[i] = fmt.Sprintf("%q", o)
	}
	return fmt.Sprintf("namespace ErgoVerif.Gen.Order\n/-- gen.MessageOptions literals that take KeepNetworkOrder from the process's own setting -/\ndef keepOrderFromSetting : Nat := %d\n/-- every other way the flag of an options value is set (another literal value, an assignment) -/\ndef keepOrderOther : List String := [%s]\nend ErgoVerif.Gen.Order\n", fromSetting, strings.Join(q, ", ")), nil
}

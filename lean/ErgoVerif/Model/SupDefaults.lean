/-!
Supervisor.ProcessInit (act/supervisor.go), "validate restart options": a zero Intensity or Period means "use the
default". `ind` says whether the two fields are defaulted independently (the code as it is) or only as a pair.
-/
namespace ErgoVerif.SupDefaults

/-- the restart options the state machines get: (intensity, period in seconds) -/
def eff (ind : Bool) (di dp i p : Nat) : Nat × Nat :=
  if ind then (if i = 0 then di else i, if p = 0 then dp else p)
  else if i = 0 ∧ p = 0 then (di, dp) else (i, p)

end ErgoVerif.SupDefaults

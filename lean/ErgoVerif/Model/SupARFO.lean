import ErgoVerif.Model.SupCommon
/-
Field-by-field mirror of `supARFO` (act/supervisor_arfo.go): all-for-one (`rest = false`)
and rest-for-one (`rest = true`) supervisors.
-/
namespace ErgoVerif.Sup

structure ARFO where
  spec : List ChildSpec := []
  rest : Bool := false
  restart : Restart := {}
  restarts : List Int := []
  autoshutdown : Bool := false
  mode : Nat := 0                 -- 0 normal, 1 starting, 2 stopping, 3 shutdown
  keeporder : Bool := false
  shutdownReason : Option Reason := none
  restartI : Nat := 0
  wait : List Nat := []
  i : Nat := 0
  deriving Repr, Inhabited

namespace ARFO

/-- supARFO.init -/
def init (s : ARFO) (sp : SupSpec) : ARFO × Res :=
  let specs := s.spec ++ mkSpecs true s.i sp.children
  let s1 := { s with rest := if sp.rest then true else s.rest, restart := sp.restart, spec := specs,
                     i := s.i + sp.children.length }
  match specs with
  | [] => (s1, .panic)
  | c0 :: _ =>
    ({ s1 with mode := 1, autoshutdown := !sp.disableAutoShutdown, keeporder := sp.restart.keepOrder },
     .ok { act := .start, spec := c0 })

/-- supARFO.childAddSpec -/
def childAddSpec (s : ARFO) (name : Nat) (sig : Bool) : ARFO × Res :=
  if s.mode ≠ 0 then (s, .err .strategyActive)
  else if !validName name then (s, .err .invalid)
  else if (findName name s.spec).isSome then (s, .err .duplicate)
  else
    let cs : ChildSpec := { name := name, significant := sig, register := true, i := s.i }
    ({ s with i := s.i + 1, spec := s.spec ++ [cs] }, .ok { act := .start, spec := cs })

/-- supARFO.childSpec -/
def childSpec (s : ARFO) (name : Nat) : ARFO × Res :=
  if s.mode ≠ 0 then (s, .err .strategyActive)
  else match findName name s.spec with
    | none => (s, .err .unknown)
    | some c =>
      if c.disabled then (s, .err .disabled)
      else if c.pid = 0 then (s, .ok { act := .start, spec := c })
      else (s, .err .running)

/-- supARFO.childStarted -/
def childStarted (s : ARFO) (cs : ChildSpec) (pid : Nat) : ARFO × Res :=
  match s.spec[cs.i]? with
  | none => (s, .panic)
  | some sp =>
    if cs.name ≠ sp.name then (s, .panic)
    else
      let s1 := { s with spec := s.spec.set cs.i { sp with args := cs.args, pid := pid } }
      if s1.mode ≠ 1 then (s1, .ok {})
      else if cs.i = s1.spec.length - 1 then ({ s1 with mode := 0 }, .ok {})
      else match findStart (cs.i + 1) 0 s1.spec with
        | some (k, c) => (s1, .ok { act := .start, spec := { c with i := k } })
        | none => (s1, .ok {})

/-- the loop of supARFO.childrenForTermination over the reversed slice: `l` is the reversed spec list,
`k` the index of its head; returns the pids to stop (they are also added to `wait`) -/
def forTermination (restartI : Nat) (keeporder : Bool) : List ChildSpec → Nat → List Nat
  | [], _ => []
  | c :: r, k =>
    if k < restartI then []
    else if c.disabled then forTermination restartI keeporder r (k - 1)
    else if c.pid = 0 then forTermination restartI keeporder r (k - 1)
    else if keeporder then [c.pid]
    else c.pid :: forTermination restartI keeporder r (k - 1)

/-- supARFO.childrenForTermination: returns the list and the updated wait set -/
def childrenForTermination (s : ARFO) : ARFO × List Nat :=
  let t := forTermination s.restartI s.keeporder s.spec.reverse (s.spec.length - 1)
  ({ s with wait := t.foldl (fun w p => sins p w) s.wait }, t)

/-- supARFO.childForStart: `none` = panic(gen.ErrInternal) (or slice bounds out of range) -/
def forStart : List ChildSpec → Option ChildSpec
  | [] => none
  | c :: r => if c.disabled then forStart r else if c.pid ≠ 0 then none else some c

def childForStart (s : ARFO) : Option ChildSpec :=
  if s.restartI > s.spec.length then none else forStart (s.spec.drop s.restartI)

def stopAll (s : ARFO) (sc : Scan) (reason : Reason) : ARFO × Res :=
  if sc.running.length = 0 then (s, .ok { act := .terminate, reason := some reason })
  else ({ s with wait := mkSet sc.running, mode := 3, shutdownReason := some reason },
        .ok { act := .terminateChildren, terminate := sc.running, reason := some reason })

def autoShutdown (s : ARFO) (sc : Scan) (reason : Reason) : ARFO × Res :=
  if sc.running.length = 0 ∧ s.autoshutdown then (s, .ok { act := .terminate, reason := some reason })
  else (s, .ok {})

/-- the tail of the `s.mode == 2` branch: switch to starting -/
def startAfterStop (s : ARFO) : ARFO × Res :=
  let s := { s with mode := 1 }
  match childForStart s with
  | none => (s, .panic)
  | some c => ({ s with restartI := 0 }, .ok { act := .start, spec := c })

/-- the `s.mode == 2` (stopping for a restart) branch of childTerminated -/
def stoppingStep (s : ARFO) (specI : Nat) (reason : Reason) : ARFO × Res :=
  if s.keeporder = false then
    if s.wait.length > 0 then (s, .ok { act := .terminateChildren })
    else startAfterStop s
  else
    if s.wait.length > 0 then (s, .panic)        -- "must be 0": panic(gen.ErrInternal)
    else
      let s := if specI < s.restartI then { s with restartI := specI } else s
      let (s, t) := childrenForTermination s
      if t.length > 0 then (s, .ok { act := .terminateChildren, reason := some reason, terminate := t })
      else startAfterStop s

/-- "activate restart strategy": set the restarting position, stop the group or start right away -/
def restartStep (s : ARFO) (specI : Nat) (reason : Reason) : ARFO × Res :=
  let s := if s.rest then { s with restartI := specI } else s
  let (s, t) := childrenForTermination s
  if t.length = 0 then
    match childForStart s with
    | none => (s, .panic)
    | some c => ({ s with mode := 1 }, .ok { act := .start, spec := c })
  else ({ s with mode := 2 }, .ok { act := .terminateChildren, reason := some reason, terminate := t })

/-- "check for restart intensity" and what follows -/
def intensityStep (s : ARFO) (sc : Scan) (specI : Nat) (reason : Reason) (now : Int) : ARFO × Res :=
  let chk := Window.check s.restarts now s.restart.periodMs s.restart.intensity
  let s := { s with restarts := chk.1 }
  if chk.2 then
    ({ s with wait := mkSet sc.running, mode := 3, shutdownReason := some .restartsExceeded },
     .ok { act := .terminateChildren, terminate := sc.running, reason := some .restartsExceeded })
  else restartStep s specI reason

/-- the branches that do not restart: significant child / auto shutdown / nothing -/
def quietStep (s : ARFO) (sc : Scan) (spec : ChildSpec) (reason : Reason) : ARFO × Res :=
  if spec.significant then stopAll s sc reason else autoShutdown s sc reason

/-- supARFO.childTerminated -/
def childTerminated (s0 : ARFO) (name pid : Nat) (reason : Reason) (now : Int) : ARFO × Res :=
  let s := { s0 with wait := sdel pid s0.wait }
  if s.mode = 3 then
    if s.wait.length > 0 then (s, .ok { act := .terminateChildren })
    else (s, .ok { act := .terminate, reason := s.shutdownReason })
  else
    let sc := scan name pid 0 s.spec
    let s := { s with spec := sc.spec }
    match sc.found with
    | none => stopAll s sc reason
    | some (specI, spec) =>
      if s.mode = 2 then stoppingStep s specI reason
      else if spec.disabled then autoShutdown s sc reason
      else
        match s.restart.strategy with
        | .temporary => quietStep s sc spec reason
        | .transient => if reason.quiet then quietStep s sc spec reason else intensityStep s sc specI reason now
        | .permanent => intensityStep s sc specI reason now

/-- supARFO.childEnable -/
def childEnable (s : ARFO) (name : Nat) : ARFO × Res :=
  if s.mode ≠ 0 then (s, .err .strategyActive)
  else match findName name s.spec with
    | none => (s, .err .unknown)
    | some c =>
      if c.disabled = false then (s, .ok {})
      else
        let c' := { c with disabled := false }
        ({ s with spec := updName name (fun _ => c') s.spec }, .ok { act := .start, spec := c' })

/-- supARFO.childDisable -/
def childDisable (s : ARFO) (name : Nat) : ARFO × Res :=
  if s.mode ≠ 0 then (s, .err .strategyActive)
  else match findName name s.spec with
    | none => (s, .err .unknown)
    | some c =>
      if c.disabled then (s, .ok {})
      else if c.pid = 0 then ({ s with spec := updName name (fun c => { c with disabled := true }) s.spec }, .ok {})
      else
        ({ s with spec := updName name (fun c => { c with disabled := true }) s.spec, wait := sins c.pid s.wait },
         .ok { act := .terminateChildren, terminate := [c.pid], reason := some .shutdown })

end ARFO
end ErgoVerif.Sup

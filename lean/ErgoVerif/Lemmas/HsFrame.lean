import ErgoVerif.Lemmas.HsReader
/-! writer/reader round trip of the handshake framing -/
namespace ErgoVerif.HsReader
open ErgoVerif.Generated

theorem header_of_frame_prefix (p rest : Bytes) (hp : p.length ≤ Hs.maxLen) :
    header (UInt8.ofNat Hs.handshakeMagic :: UInt8.ofNat Hs.handshakeVersion :: (be32enc p.length ++ rest)) =
      if rest.length < p.length then .need (Hs.needBase + p.length) else .done rest := by
  simp only [Hs.maxLen] at hp
  simp only [header, idx, be32, be32enc, Hs.magicOff, Hs.versionOff, Hs.lenLo, Hs.lenHi, Hs.handshakeMagic,
    Hs.handshakeVersion, Hs.maxLen, Hs.needBase, Hs.payloadOff, List.length_cons, List.cons_append, List.nil_append,
    List.getElem?_cons_zero, List.getElem?_cons_succ, List.drop_succ_cons, List.drop_zero, UInt8.toNat_ofNat']
  have h1 : (2 ≤ 6 ∧ 6 ≤ rest.length + 1 + 1 + 1 + 1 + 1 + 1 ∧ 4 ≤ 6 - 2) := by omega
  simp only [h1, and_self, ↓reduceIte]
  have hl : p.length / 16777216 % 256 * 16777216 + p.length / 65536 % 256 * 65536 + p.length / 256 % 256 * 256 + p.length % 256 = p.length := by omega
  simp [hl]
  split
  · omega
  · split
    · rename_i h2
      have : rest.length < p.length := by omega
      simp [this]
    · rename_i h2
      have : ¬ rest.length < p.length := by omega
      simp [this]

def hdr6 (n : Nat) : Bytes := UInt8.ofNat Hs.handshakeMagic :: UInt8.ofNat Hs.handshakeVersion :: be32enc n

theorem frame_eq (p : Bytes) : frame p = hdr6 p.length ++ p := by simp [frame, hdr6]
theorem hdr6_length (n : Nat) : (hdr6 n).length = 6 := by simp [hdr6, be32enc]

theorem header_hdr6 (p rest : Bytes) (hp : p.length ≤ Hs.maxLen) :
    header (hdr6 p.length ++ rest) = if rest.length < p.length then .need (Hs.needBase + p.length) else .done rest := by
  have := header_of_frame_prefix p rest hp
  simpa [hdr6] using this

/-- a chunk that is a prefix of a frame and holds the whole header -/
theorem prefix_split (p chunk tail : Bytes) (h : chunk ++ tail = frame p) (h6 : 6 ≤ chunk.length) :
    ∃ rest, chunk = hdr6 p.length ++ rest ∧ rest ++ tail = p := by
  rw [frame_eq] at h
  have hc : chunk = (hdr6 p.length ++ p).take chunk.length := by
    have := congrArg (List.take chunk.length) h
    simpa using this
  have hd : tail = (hdr6 p.length ++ p).drop chunk.length := by
    have := congrArg (List.drop chunk.length) h
    simpa using this
  rw [List.take_append, List.take_of_length_le (by rw [hdr6_length]; exact h6), hdr6_length] at hc
  rw [List.drop_append, List.drop_of_length_le (by rw [hdr6_length]; exact h6), hdr6_length, List.nil_append] at hd
  exact ⟨p.take (chunk.length - 6), hc, by rw [hd]; exact List.take_append_drop _ _⟩

theorem loop_roundtrip (p : Bytes) (hp : p.length ≤ Hs.maxLen) (conn : List Bytes) :
    ∀ (chunk : Bytes) (expect peak reads : Nat),
    (∀ r ∈ conn, r ≠ [] ∧ r.length ≤ Hs.readBuf) →
    chunk ++ conn.flatten = frame p →
    (expect = Hs.headerLen ∨ (expect = Hs.needBase + p.length ∧ 6 ≤ chunk.length)) →
    (loop chunk expect conn peak reads).res = .ok p := by
  induction conn with
  | nil =>
    intro chunk expect peak reads _ hinv hex
    simp only [List.flatten_nil, List.append_nil] at hinv
    have hlen : chunk.length = 6 + p.length := by rw [hinv, frame_eq]; simp [hdr6_length]
    unfold loop
    have hge : ¬ chunk.length < expect := by
      rcases hex with h | ⟨h, _⟩ <;> simp [h, Hs.headerLen, Hs.needBase, hlen]
    simp only [hge, ↓reduceIte]
    rw [hinv, frame_eq, header_hdr6 p p hp]
    simp
  | cons r rest ih =>
    intro chunk expect peak reads hsegs hinv hex
    have hr := hsegs r (by simp)
    have htake : r.take Hs.readBuf = r := List.take_of_length_le hr.2
    have hsegs' : ∀ x ∈ rest, x ≠ [] ∧ x.length ≤ Hs.readBuf := fun x hx => hsegs x (by simp [hx])
    have hinv' : (chunk ++ r) ++ rest.flatten = frame p := by simpa [List.append_assoc] using hinv
    unfold loop
    by_cases hlt : chunk.length < expect
    · simp only [hlt, ↓reduceIte, htake]
      apply ih _ _ _ _ hsegs' hinv'
      rcases hex with h | ⟨h, h6⟩
      · exact Or.inl h
      · exact Or.inr ⟨h, by simp; omega⟩
    · simp only [hlt, ↓reduceIte]
      have h6 : 6 ≤ chunk.length := by
        rcases hex with h | ⟨_, h6⟩
        · simp [h, Hs.headerLen] at hlt; omega
        · exact h6
      obtain ⟨rest', hc, hrest⟩ := prefix_split p chunk _ hinv h6
      rw [hc, header_hdr6 p rest' hp]
      have hrl : rest'.length < p.length := by
        have := congrArg List.length hrest
        have hrpos : 0 < r.length := List.length_pos_iff.mpr hr.1
        simp at this; omega
      simp only [hrl, ↓reduceIte, htake]
      rw [← hc]
      apply ih _ _ _ _ hsegs' hinv'
      exact Or.inr ⟨rfl, by simp; omega⟩

end ErgoVerif.HsReader

package main

// C19 — pool dispatch. A real act.Pool whose workers are permit-driven puppets: a worker records every message it
// takes and then blocks until the harness gives it a permit, so its mailbox length is under the harness's control.
// Operation sequences (send to the pool, kill a worker, let a worker take one message, AddWorkers, RemoveWorkers,
// make the next spawn fail) are applied to the real pool and to Model/Pool.lean; after every operation the set of
// workers with liveness and queue length, and the pool's counters (forwarded / restarts / unhandled), must agree.
// Oracles: every message is taken by at most one worker; a message is unhandled only if every worker was full or
// dead with the respawn failing; requests through a healthy pool are answered to the right caller.

import (
	"fmt"
	"sort"
	"strings"
	"sync"
	"sync/atomic"
	"time"

	"ergo.services/ergo/act"
	"ergo.services/ergo/gen"
)

func init() { props["C19"] = runC19 }

type c19world struct {
	mu       sync.Mutex
	workers  map[int]*c19worker
	nextID   int32
	failNext atomic.Bool
	taken    map[int][]int // message id -> worker ids that took it
	presented map[int]int  // request id -> number of HandleCall invocations
	limit    int64
	size     int64
}

type c19worker struct {
	act.Actor
	w      *c19world
	id     int
	permit chan struct{}
	pid    gen.PID
	ready  chan struct{}
}

type c19msg struct{ ID int }
type c19park struct{}
type c19req struct{ ID int }
type c19resp struct {
	ID     int
	Worker int
}

func (x *c19worker) Init(args ...any) error {
	x.pid = x.PID()
	close(x.ready)
	return nil
}

func (x *c19worker) HandleMessage(from gen.PID, m any) error {
	switch v := m.(type) {
	case c19park:
		<-x.permit
	case c19msg:
		x.w.mu.Lock()
		x.w.taken[v.ID] = append(x.w.taken[v.ID], x.id)
		x.w.mu.Unlock()
		<-x.permit
	}
	return nil
}

func (x *c19worker) HandleCall(from gen.PID, ref gen.Ref, req any) (any, error) {
	if rq, ok := req.(c19req); ok {
		x.w.mu.Lock()
		x.w.presented[rq.ID]++
		x.w.mu.Unlock()
		return c19resp{rq.ID, x.id}, nil
	}
	return nil, nil
}

type c19pool struct {
	act.Pool
	w *c19world
}

func (p *c19pool) Init(args ...any) (act.PoolOptions, error) {
	return act.PoolOptions{
		PoolSize:          p.w.size,
		WorkerMailboxSize: p.w.limit,
		WorkerFactory: func() gen.ProcessBehavior {
			if p.w.failNext.Swap(false) {
				atomic.AddInt32(&p.w.nextID, 1)
				return nil
			}
			id := int(atomic.AddInt32(&p.w.nextID, 1)) - 1
			wk := &c19worker{w: p.w, id: id, permit: make(chan struct{}, 64), ready: make(chan struct{})}
			p.w.mu.Lock()
			p.w.workers[id] = wk
			p.w.mu.Unlock()
			return wk
		},
	}, nil
}

type c19cmd struct {
	fn   func(p *c19pool)
	done chan struct{}
}

func (p *c19pool) HandleMessage(from gen.PID, m any) error {
	if c, ok := m.(c19cmd); ok {
		c.fn(p)
		close(c.done)
	}
	return nil
}

func runC19(c *Ctx) {
	r := c.R
	r.Rule = "operation sequences (20-60 ops) on a real act.Pool with permit-driven workers: pool size 1-4, worker mailbox 0(unbounded)/1/2/3; ops send / kill worker / worker takes one / AddWorkers / RemoveWorkers / failing respawn; " +
		"after every op worker set, liveness, queue lengths and pool counters vs Model/Pool (driver \"pool\"); non-trivial = at least one skip-because-full or respawn happened; distinct by op string"
	k, err := NewK4("c19n")
	if err != nil {
		r.Disagree("c19.node", err.Error(), nil)
		return
	}
	defer k.Stop()
	n := c.N(60, 2500)
	_, inspector, _ := k.Spawn("inspector", false, gen.ProcessOptions{}, "")
	for it := 0; it < n; it++ {
		w := &c19world{workers: map[int]*c19worker{}, taken: map[int][]int{}, presented: map[int]int{}}
		w.size = int64(1 + c.Rng.Intn(4))
		w.limit = int64(c.Rng.Intn(4))
		ppid, err := k.Node.Spawn(func() gen.ProcessBehavior { return &c19pool{w: w} }, gen.ProcessOptions{})
		if err != nil {
			r.Disagree("c19.spawn", err.Error(), nil)
			return
		}
		poolExec := func(fn func(p *c19pool)) {
			done := make(chan struct{})
			// management commands must not be forwarded to workers: send with High priority (System queue)
			k.Node.SendWithPriority(ppid, c19cmd{fn, done}, gen.MessagePriorityHigh)
			select {
			case <-done:
			case <-time.After(3 * time.Second):
			}
		}
		park := func(id int) {
			w.mu.Lock()
			wk := w.workers[id]
			w.mu.Unlock()
			if wk == nil {
				return
			}
			<-wk.ready
			k.Node.Send(wk.pid, c19park{})
			waitUntil(time.Second, func() bool {
				info, err := k.Node.ProcessInfo(wk.pid)
				return err != nil || (info.MailboxQueues.Main == 0 && info.State == gen.ProcessStateRunning)
			})
		}
		for i := 0; i < int(w.size); i++ {
			park(i)
		}
		lines := []string{fmt.Sprintf("new %d %d", w.size, w.limit)}
		var wants []string
		observe := func() string {
			// wait until the pool process is idle
			waitUntil(2*time.Second, func() bool {
				info, err := k.Node.ProcessInfo(ppid)
				return err != nil || (info.State == gen.ProcessStateSleep && info.MailboxQueues.Main+info.MailboxQueues.System+info.MailboxQueues.Urgent == 0)
			})
			w.mu.Lock()
			ids := make([]int, 0, len(w.workers))
			for id := range w.workers {
				ids = append(ids, id)
			}
			w.mu.Unlock()
			sort.Ints(ids)
			var parts []string
			for _, id := range ids {
				w.mu.Lock()
				wk := w.workers[id]
				w.mu.Unlock()
				select {
				case <-wk.ready:
				default:
					continue
				}
				info, err := k.Node.ProcessInfo(wk.pid)
				if err != nil || info.State == gen.ProcessStateZombee || info.State == gen.ProcessStateTerminated {
					// gone, or killed while inside a callback (its goroutine has not ended yet): dead for the pool
					parts = append(parts, fmt.Sprintf("%d:0:0", id))
				} else {
					parts = append(parts, fmt.Sprintf("%d:1:%d", id, info.MailboxQueues.Main))
				}
			}
			var insp map[string]string
			k.Exec(inspector, func(p *Puppet) { insp, _ = p.Inspect(ppid) })
			return fmt.Sprintf("%s f=%s r=%s u=%s", strings.Join(parts, ","), insp["messages_forwarded"], insp["worker_restarts"], insp["messages_unhandled"])
		}
		wants = append(wants, observe())
		// model bookkeeping on the harness side (only to choose sensible ops): queue lengths, liveness
		qlen := map[int]int{}
		alive := map[int]bool{}
		inRing := []int{}
		for i := 0; i < int(w.size); i++ {
			alive[i] = true
			inRing = append(inRing, i)
		}
		nops := 20 + c.Rng.Intn(41)
		msgID := 0
		lostQueued := 0 // messages that sat in the queue of a worker when it was killed / removed (the allowed loss)
		sawSkipOrRespawn := false
		var opstr []string
		for o := 0; o < nops; o++ {
			x := c.Rng.Intn(100)
			switch {
			case x < 55:
				msgID++
				id := msgID
				before := int(atomic.LoadInt32(&w.nextID))
				prev := wants[len(wants)-1]
				if prev == "*" && len(wants) > 1 {
					prev = wants[len(wants)-2]
				}
				k.Node.Send(ppid, c19msg{id})
				lines = append(lines, "send")
				obs := observe()
				wants = append(wants, obs)
				// oracle: dropped only if no live worker of the pool had room
				if fieldOf(obs, "u=") > fieldOf(prev, "u=") {
					for _, x := range strings.Split(strings.Fields(prev + " ")[0], ",") {
						var wid, al, ln int
						if n, _ := fmt.Sscanf(x, "%d:%d:%d", &wid, &al, &ln); n == 3 && al == 1 && (w.limit == 0 || int64(ln) < w.limit) {
							r.Violation("C19/dropped-with-room", fmt.Sprintf("message %d was dropped although live worker %d had %d queued of %d allowed", id, wid, ln, w.limit),
								map[string]interface{}{"pool_size": w.size, "worker_mailbox": w.limit, "ops": append([]string(nil), lines...), "before": prev, "after": obs})
						}
					}
				}
				opstr = append(opstr, "send")
				if int(atomic.LoadInt32(&w.nextID)) > before {
					// a respawn was attempted: the replacement (if any) took the message at once and blocks at its end
					sawSkipOrRespawn = true
					nid := int(atomic.LoadInt32(&w.nextID)) - 1
					w.mu.Lock()
					_, exists := w.workers[nid]
					w.mu.Unlock()
					if exists {
						alive[nid] = true
						// the replacement pops its message at once: compare only after that (timing-independent)
						wants[len(wants)-1] = "*"
						lines = append(lines, fmt.Sprintf("handle %d", nid))
						waitUntil(time.Second, func() bool {
							w.mu.Lock()
							defer w.mu.Unlock()
							return len(w.taken[id]) > 0
						})
						wants = append(wants, observe())
					}
				}
			case x < 70:
				// kill a live worker
				var cand []int
				for id, a := range alive {
					if a {
						cand = append(cand, id)
					}
				}
				if len(cand) == 0 {
					continue
				}
				sort.Ints(cand)
				id := cand[c.Rng.Intn(len(cand))]
				w.mu.Lock()
				wk := w.workers[id]
				w.mu.Unlock()
				if info, err := k.Node.ProcessInfo(wk.pid); err == nil {
					lostQueued += int(info.MailboxQueues.Main)
				}
				k.Node.Kill(wk.pid)
				if c.Rng.Intn(3) == 0 {
					// the worker stays blocked inside its callback: killed, its goroutine not ended (a zombie until the
					// end of the sequence). For the pool it is as dead as one that is gone.
					waitUntil(time.Second, func() bool {
						info, err := k.Node.ProcessInfo(wk.pid)
						return err != nil || info.State == gen.ProcessStateZombee
					})
					r.Count("kill.worker-stays-in-callback")
					alive[id] = false
					lines = append(lines, fmt.Sprintf("die %d", id))
					wants = append(wants, observe())
					opstr = append(opstr, fmt.Sprintf("zombie%d", id))
					continue
				}
				// a worker blocked on its permit cannot see the kill: give it permits so that its goroutine ends
				for i := 0; i < 8; i++ {
					select {
					case wk.permit <- struct{}{}:
					default:
					}
				}
				waitUntilGone(k, wk.pid)
				alive[id] = false
				lines = append(lines, fmt.Sprintf("die %d", id))
				wants = append(wants, observe())
				opstr = append(opstr, fmt.Sprintf("die%d", id))
			case x < 85:
				// a live worker with queued messages takes one
				var cand []int
				for id, a := range alive {
					w.mu.Lock()
					wk := w.workers[id]
					w.mu.Unlock()
					if !a || wk == nil {
						continue
					}
					if info, err := k.Node.ProcessInfo(wk.pid); err == nil && info.MailboxQueues.Main > 0 {
						cand = append(cand, id)
					}
				}
				if len(cand) == 0 {
					continue
				}
				sort.Ints(cand)
				id := cand[c.Rng.Intn(len(cand))]
				w.mu.Lock()
				wk := w.workers[id]
				w.mu.Unlock()
				info, _ := k.Node.ProcessInfo(wk.pid)
				before := info.MailboxQueues.Main
				wk.permit <- struct{}{}
				waitUntil(time.Second, func() bool {
					i2, err := k.Node.ProcessInfo(wk.pid)
					return err != nil || i2.MailboxQueues.Main == before-1
				})
				lines = append(lines, fmt.Sprintf("handle %d", id))
				wants = append(wants, observe())
				opstr = append(opstr, fmt.Sprintf("take%d", id))
			case x < 90:
				before := int(atomic.LoadInt32(&w.nextID))
				poolExec(func(p *c19pool) { p.AddWorkers(1) })
				if int(atomic.LoadInt32(&w.nextID)) > before {
					nid := int(atomic.LoadInt32(&w.nextID)) - 1
					w.mu.Lock()
					_, exists := w.workers[nid]
					w.mu.Unlock()
					if exists {
						alive[nid] = true
						park(nid)
					}
				}
				lines = append(lines, "add")
				wants = append(wants, observe())
				opstr = append(opstr, "add")
			case x < 94:
				// RemoveWorkers(1): the head of the ring gets an exit signal; which worker that is only the model knows,
				// we observe who disappears
				poolExec(func(p *c19pool) { p.RemoveWorkers(1) })
				// the removed worker is blocked on its permit: release every worker once is not an option (it would
				// change queue lengths), so give permits only to workers that have an exit queued (Urgent > 0)
				time.Sleep(300 * time.Microsecond)
				for id, a := range alive {
					if !a {
						continue
					}
					w.mu.Lock()
					wk := w.workers[id]
					w.mu.Unlock()
					if info, err := k.Node.ProcessInfo(wk.pid); err == nil && info.MailboxQueues.Urgent > 0 {
						lostQueued += int(info.MailboxQueues.Main)
						for i := 0; i < 8; i++ {
							select {
							case wk.permit <- struct{}{}:
							default:
							}
						}
						waitUntilGone(k, wk.pid)
						alive[id] = false
						// the model drops the worker from the ring; for the observation it is "dead"
						w.mu.Lock()
						delete(w.workers, id)
						w.mu.Unlock()
					}
				}
				lines = append(lines, "remove")
				wants = append(wants, observe())
				opstr = append(opstr, "remove")
			default:
				w.failNext.Store(true)
				lines = append(lines, "failnext")
				wants = append(wants, observe())
				opstr = append(opstr, "failnext")
			}
			_ = qlen
			_ = inRing
		}
		outs, err := Model("pool", lines)
		if err != nil {
			r.Disagree("pool.driver", err.Error(), nil)
			return
		}
		for i := range lines {
			// model line: "<out> <ring> f= r= u="; the ring lists workers in ring order: compare as sets by id;
			// removed workers are absent from the model ring and from our observation
			if wants[i] == "*" {
				continue
			}
			mo := canonRing(outs[i])
			im := canonRing("- " + wants[i])
			if mo != im {
				r.Disagree("K4 Model.Pool ~ act.Pool forward/AddWorkers/RemoveWorkers", fmt.Sprintf("after op %d %q: model %q, implementation %q", i, lines[i], outs[i], wants[i]),
					map[string]interface{}{"pool_size": w.size, "worker_mailbox": w.limit, "ops": lines, "impl": wants})
				break
			}
			if strings.HasPrefix(outs[i], "respawned") || strings.HasPrefix(outs[i], "dropped") {
				sawSkipOrRespawn = true
			}
		}
		// oracle: every forwarded message is eventually taken by a worker, unless it was queued at a worker that died
		// afterwards. Let every worker run freely now.
		finalObs := wants[len(wants)-1]
		w.mu.Lock()
		for _, wk := range w.workers {
			go func(wk *c19worker) {
				for i := 0; i < 200; i++ {
					select {
					case wk.permit <- struct{}{}:
					case <-time.After(20 * time.Millisecond):
						return
					}
				}
			}(wk)
		}
		w.mu.Unlock()
		fwd := fieldOf(finalObs, "f=")
		waitUntil(time.Second, func() bool {
			w.mu.Lock()
			defer w.mu.Unlock()
			return len(w.taken)+lostQueued >= fwd
		})
		w.mu.Lock()
		if len(w.taken)+lostQueued > fwd {
			r.Count("drain.more-than-forwarded")
		}
		if len(w.taken)+lostQueued != fwd {
			r.Violation("C19/forwarded-but-lost", fmt.Sprintf("the pool counted %d forwarded messages; %d were taken by workers and %d were queued at workers that died: %d unaccounted",
				fwd, len(w.taken), lostQueued, fwd-len(w.taken)-lostQueued), map[string]interface{}{"pool_size": w.size, "worker_mailbox": w.limit, "ops": lines, "impl": wants})
		}
		w.mu.Unlock()
		// oracle: nobody takes a message twice
		w.mu.Lock()
		for id, ws := range w.taken {
			if len(ws) > 1 {
				r.Violation("C19/taken-twice", fmt.Sprintf("message %d was taken by workers %v", id, ws), map[string]interface{}{"ops": lines})
			}
		}
		w.mu.Unlock()
		r.Case(fmt.Sprintf("%d/%d/%s", w.size, w.limit, strings.Join(opstr, ",")), sawSkipOrRespawn)
		if it < 2 {
			r.Sample(map[string]interface{}{"pool_size": w.size, "worker_mailbox": w.limit, "ops": lines, "impl": wants})
		}
		// cleanup
		k.Node.Kill(ppid)
		w.mu.Lock()
		for _, wk := range w.workers {
			for i := 0; i < 16; i++ {
				select {
				case wk.permit <- struct{}{}:
				default:
				}
			}
			k.Node.Kill(wk.pid)
		}
		w.mu.Unlock()
	}
	c19calls(c, k)
}

func fieldOf(obs, key string) int {
	for _, t := range strings.Fields(obs) {
		if strings.HasPrefix(t, key) {
			var v int
			fmt.Sscanf(t[len(key):], "%d", &v)
			return v
		}
	}
	return 0
}

// canonRing turns "<out> id:a:l,id:a:l f=.. r=.. u=.." into a canonical string with workers sorted by id, dead ones dropped
func canonRing(s string) string {
	f := strings.Fields(s)
	fi := -1
	for i, t := range f {
		if strings.HasPrefix(t, "f=") {
			fi = i
			break
		}
	}
	if fi < 0 {
		return s
	}
	var live []string
	for _, t := range f[:fi] {
		for _, x := range strings.Split(t, ",") {
			p := strings.Split(x, ":")
			if len(p) == 3 && p[1] == "1" {
				live = append(live, x)
			}
		}
	}
	sort.Slice(live, func(i, j int) bool {
		var a, b int
		fmt.Sscanf(live[i], "%d:", &a)
		fmt.Sscanf(live[j], "%d:", &b)
		return a < b
	})
	return strings.Join(live, ",") + " " + strings.Join(f[fi:], " ")
}

// c19calls: requests through a healthy pool reach exactly one worker and the reply reaches the caller that asked.
func c19calls(c *Ctx, k *K4) {
	r := c.R
	w := &c19world{workers: map[int]*c19worker{}, taken: map[int][]int{}, presented: map[int]int{}, size: 3}
	ppid, err := k.Node.Spawn(func() gen.ProcessBehavior { return &c19pool{w: w} }, gen.ProcessOptions{})
	if err != nil {
		return
	}
	ncallers := 4
	var wg sync.WaitGroup
	for cidx := 0; cidx < ncallers; cidx++ {
		_, cpid, _ := k.Spawn("caller", false, gen.ProcessOptions{}, "")
		wg.Add(1)
		go func(cidx int, cpid gen.PID) {
			defer wg.Done()
			for j := 0; j < c.N(15, 200); j++ {
				id := cidx*100000 + j
				var v any
				var e error
				k.Exec(cpid, func(p *Puppet) { v, e = p.CallWithTimeout(ppid, c19req{id}, 2) })
				rp, ok := v.(c19resp)
				if e != nil || !ok || rp.ID != id {
					r.Violation("C19/call-reply", fmt.Sprintf("request %d through the pool: reply %#v err %v", id, v, e), nil)
				}
				r.Case(fmt.Sprintf("call/%d", id), false)
			}
		}(cidx, cpid)
	}
	wg.Wait()
	k.Node.Kill(ppid)
}

package main

import (
	"fmt"
	"strings"
	"sync"
	"time"

	"ergo.services/ergo/gen"
	"ergo.services/ergo/lib"
	"ergo.services/ergo/net/proto"
)

// C12 / C13, receive-queue part (K3): two real proto connections over in-memory links; the receive queues of the
// receiving connection are wrapped (proto.VerifWrapRecvQueues) so that every queue operation of serve() and
// handleRecvQueue() — Push, Lock, Pop, Unlock, Item — is a yield point: the goroutine parks before the operation and
// the harness decides who goes next (seeded). Every operation with its result is one label of Model/RecvQ.lean
// (driver "recvq"): the model must have that label enabled and agree on the queue length. Independent oracle: when
// every goroutine has come to rest the queue is empty and every message sent was routed, per sender in order.

type rqEvent struct {
	gid uint64
	op  string
	res string
}

type rqParked struct {
	gid   uint64
	op    string
	grant chan struct{}
}

type rqSched struct {
	mu     sync.Mutex
	on     bool
	parked []*rqParked
	left   chan rqEvent
	change int64 // bumped on every park / leave
}

func (s *rqSched) enter(op string) bool {
	s.mu.Lock()
	if !s.on {
		s.mu.Unlock()
		return false
	}
	p := &rqParked{gid: gid(), op: op, grant: make(chan struct{})}
	s.parked = append(s.parked, p)
	s.change++
	s.mu.Unlock()
	<-p.grant
	return true
}

func (s *rqSched) leave(controlled bool, op, res string) {
	if !controlled {
		return
	}
	s.mu.Lock()
	s.change++
	s.mu.Unlock()
	s.left <- rqEvent{gid(), op, res}
}

// settle waits until the set of parked goroutines has been stable for `calm`
func (s *rqSched) settle(calm, max time.Duration) []*rqParked {
	deadline := time.Now().Add(max)
	s.mu.Lock()
	last := s.change
	s.mu.Unlock()
	stableSince := time.Now()
	for time.Now().Before(deadline) {
		time.Sleep(100 * time.Microsecond)
		s.mu.Lock()
		cur := s.change
		s.mu.Unlock()
		if cur != last {
			last = cur
			stableSince = time.Now()
			continue
		}
		if time.Since(stableSince) >= calm {
			break
		}
	}
	s.mu.Lock()
	defer s.mu.Unlock()
	return append([]*rqParked(nil), s.parked...)
}

func (s *rqSched) release(p *rqParked) rqEvent {
	s.mu.Lock()
	for i, x := range s.parked {
		if x == p {
			s.parked = append(s.parked[:i], s.parked[i+1:]...)
			break
		}
	}
	s.mu.Unlock()
	close(p.grant)
	return <-s.left
}

func (s *rqSched) off() {
	s.mu.Lock()
	s.on = false
	ps := s.parked
	s.parked = nil
	s.mu.Unlock()
	for _, p := range ps {
		close(p.grant)
	}
	// drain leave events of the released goroutines
	go func() {
		for {
			select {
			case <-s.left:
			case <-time.After(200 * time.Millisecond):
				return
			}
		}
	}()
}

type rqWrap struct {
	inner lib.QueueMPSC
	s     *rqSched
	used  *int32
	mu    *sync.Mutex
	id    int
}

func (w *rqWrap) touch() {
	w.mu.Lock()
	*w.used = int32(w.id)
	w.mu.Unlock()
}
func (w *rqWrap) Push(v any) bool {
	c := w.s.enter("Push")
	w.touch()
	r := w.inner.Push(v)
	w.s.leave(c, "Push", fmt.Sprint(r))
	return r
}
func (w *rqWrap) Pop() (any, bool) {
	c := w.s.enter("Pop")
	v, ok := w.inner.Pop()
	w.s.leave(c, "Pop", fmt.Sprint(ok))
	return v, ok
}
func (w *rqWrap) Item() lib.ItemMPSC {
	c := w.s.enter("Item")
	it := w.inner.Item()
	w.s.leave(c, "Item", fmt.Sprint(it != nil))
	return it
}
func (w *rqWrap) Lock() bool {
	c := w.s.enter("Lock")
	r := w.inner.Lock()
	w.s.leave(c, "Lock", fmt.Sprint(r))
	return r
}
func (w *rqWrap) Unlock() bool {
	c := w.s.enter("Unlock")
	r := w.inner.Unlock()
	w.s.leave(c, "Unlock", fmt.Sprint(r))
	return r
}
func (w *rqWrap) Len() int64  { return w.inner.Len() }
func (w *rqWrap) Size() int64 { return w.inner.Size() }

type rqOutcome struct {
	lines, wants []string
	trace        []string
	violation    string
	sig          string
	inconclusive string
	rounds       int
	recheck      bool // a worker went round the re-check (saw an item after unlocking)
	contended    bool // some Lock failed
}

// c12recvqOnce: nmsg messages from `senders` senders to one receiver over `pool` links, one seeded schedule.
func c12recvqOnce(rng *Rng, pool, senders, nmsg int) rqOutcome {
	var out rqOutcome
	const creA, creB = 100, 200
	p, err := newK5pair(pool, creA, creB)
	if err != nil {
		out.inconclusive = "NewConnection: " + err.Error()
		return out
	}
	defer p.close()
	s := &rqSched{left: make(chan rqEvent, 64)}
	var wraps []*rqWrap
	var used int32 = -1
	var umu sync.Mutex
	proto.VerifWrapRecvQueues(p.cb, func(q lib.QueueMPSC) lib.QueueMPSC {
		w := &rqWrap{inner: q, s: s, used: &used, mu: &umu, id: len(wraps)}
		wraps = append(wraps, w)
		return w
	})
	for i := 0; i < pool; i++ {
		if _, err := p.addLink(); err != nil {
			out.inconclusive = "Join: " + err.Error()
			return out
		}
	}
	// the receiver id fixes the queue; the sender ids fix the links
	to := gen.PID{Node: p.b.name, ID: 1000 + uint64(rng.Intn(500)), Creation: creB}
	var froms []gen.PID
	for i := 0; i < senders; i++ {
		froms = append(froms, gen.PID{Node: p.a.name, ID: 2000 + uint64(rng.Intn(500)), Creation: creA})
	}
	s.mu.Lock()
	s.on = true
	s.mu.Unlock()
	defer s.off()
	sentBy := map[uint64][]int64{}
	for i := 0; i < nmsg; i++ {
		f := froms[rng.Intn(len(froms))]
		if err := p.ca.SendPID(f, to, gen.MessageOptions{KeepNetworkOrder: true}, int64(i)); err != nil {
			out.inconclusive = "SendPID: " + err.Error()
			return out
		}
		sentBy[f.ID] = append(sentBy[f.ID], int64(i))
	}
	if !p.waitFrames(nmsg, 3*time.Second) {
		out.inconclusive = "frames not written"
		return out
	}
	for _, l := range p.links {
		l.releaseTo(1 << 40)
	}
	role := map[uint64]string{}
	lines := []string{"reset"}
	wants := []string{"ok"}
	pushes := 0
	steps := 0
	lastProgress := time.Now()
	for steps < 40*nmsg+40 {
		parked := s.settle(1500*time.Microsecond, 300*time.Millisecond)
		if len(parked) == 0 {
			// nobody is at a queue operation: either everything has been routed, or the readers / workers have not got
			// there yet (a loaded machine), or — only after a long silence — something is stranded for good
			if p.b.count() >= nmsg || time.Since(lastProgress) > 4*time.Second {
				break
			}
			continue
		}
		lastProgress = time.Now()
		pk := parked[rng.Intn(len(parked))]
		ev := s.release(pk)
		steps++
		if role[ev.gid] == "" {
			if ev.op == "Push" {
				role[ev.gid] = "r"
			} else {
				role[ev.gid] = "w"
			}
		}
		var lbl string
		switch ev.op {
		case "Push":
			pushes++
			lbl = fmt.Sprintf("rPush %d", pushes)
			role[ev.gid] = "r" // a reader goroutine stays a reader
		case "Lock":
			who := "w"
			if role[ev.gid] == "r" {
				who = "r"
			}
			if ev.res == "true" {
				lbl = who + "LockOk"
			} else {
				lbl = who + "LockFail"
				out.contended = true
			}
		case "Pop":
			if ev.res == "true" {
				lbl = "wPopSome"
			} else {
				lbl = "wPopNone"
			}
		case "Unlock":
			lbl = "wUnlock"
		case "Item":
			if ev.res == "true" {
				lbl = "wItemSome"
				out.recheck = true
			} else {
				lbl = "wItemNil"
			}
		}
		umu.Lock()
		qi := used
		umu.Unlock()
		ql := int64(0)
		if qi >= 0 {
			ql = wraps[qi].inner.Len()
		}
		out.trace = append(out.trace, fmt.Sprintf("g%d:%s=%s", ev.gid%1000, ev.op, ev.res))
		lines = append(lines, lbl)
		wants = append(wants, fmt.Sprintf("ok q=%d", ql))
	}
	out.lines, out.wants = lines, wants
	// quiescent: nobody parked, nothing changing. Oracle on the real objects.
	time.Sleep(2 * time.Millisecond)
	umu.Lock()
	qi := used
	umu.Unlock()
	if qi >= 0 {
		if n := wraps[qi].inner.Len(); n > 0 {
			out.sig = "C12/recvq-stranded-frame"
			out.violation = fmt.Sprintf("every reader and worker has come to rest, %d frame(s) are still in the receive queue and no worker will look at them (%d of %d messages routed)", n, p.b.count(), nmsg)
			return out
		}
	}
	got := p.b.snapshot()
	if len(got) != nmsg {
		out.sig = "C12/recvq-lost-or-duplicated"
		out.violation = fmt.Sprintf("%d messages were sent and all frames consumed, %d were routed", nmsg, len(got))
		return out
	}
	gotBy := map[uint64][]int64{}
	for _, g := range got {
		gotBy[g.From] = append(gotBy[g.From], g.Seq)
	}
	for f, want := range sentBy {
		if fmt.Sprint(gotBy[f]) != fmt.Sprint(want) {
			out.sig = "C13/recvq-order"
			out.violation = fmt.Sprintf("sender %d sent %v, the receiver's core was handed %v", f, want, gotBy[f])
			return out
		}
	}
	return out
}

func c12recvq(c *Ctx) {
	r := c.R
	rounds := c.N(120, 4000)
	var lines, wants []string
	var starts []int
	var outs []rqOutcome
	for i := 0; i < rounds; i++ {
		pool := 1 + c.Rng.Intn(3)
		senders := 1 + c.Rng.Intn(3)
		nmsg := 2 + c.Rng.Intn(5)
		o := c12recvqOnce(c.Rng, pool, senders, nmsg)
		rp := map[string]interface{}{"pool": pool, "senders": senders, "messages": nmsg, "schedule": o.trace}
		if o.inconclusive != "" {
			r.Count("recvq.inconclusive")
			continue
		}
		if o.violation != "" {
			r.Violation(o.sig, o.violation, rp)
		}
		r.Case(fmt.Sprintf("recvq/%d/%d/%d/%s", pool, senders, nmsg, strings.Join(o.trace, " ")), o.recheck || o.contended)
		if o.recheck {
			r.Count("recvq.recheck-found-item")
		}
		if o.contended {
			r.Count("recvq.lock-contended")
		}
		r.Count("recvq.schedules")
		starts = append(starts, len(lines))
		lines = append(lines, o.lines...)
		wants = append(wants, o.wants...)
		outs = append(outs, o)
	}
	res, err := Model("recvq", lines)
	if err != nil {
		r.Disagree("recvq.driver", err.Error(), nil)
		return
	}
	for i := range lines {
		if lines[i] == "reset" {
			continue
		}
		if !strings.HasPrefix(res[i], wants[i]+" ") {
			// find the schedule this line belongs to
			k := 0
			for j, st := range starts {
				if st <= i {
					k = j
				}
			}
			r.Disagree("K3 Model.RecvQ ~ serve/handleRecvQueue lockstep", fmt.Sprintf("operation %q: model %q, implementation %q", lines[i], res[i], wants[i]),
				map[string]interface{}{"schedule": outs[k].trace, "labels": lines[starts[k] : i+1]})
			return
		}
	}
}

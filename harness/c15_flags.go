package main

import (
	"fmt"
	"net"
	"sort"
	"strings"
	"sync"
	"time"

	"ergo.services/ergo/gen"
	"ergo.services/ergo/net/handshake"
	"ergo.services/ergo/net/proto"
)

// K5 on the flag checks of both ends and the environment exposure, with two real proto connections
// joined by net.Pipe and a mock gen.Core that records RouteSpawn / RouteApplicationStart:
// the requester is created with PeerFlags (what it believes the peer allows), the receiver with
// NodeFlags (what it really allows) — independently, so that the receiver-side guard is reachable
// (a requester that ignores or is lied to about the peer's flags). All 64 combinations of
// (Enable, EnableRemoteSpawn, EnableRemoteApplicationStart) on both ends, both request kinds,
// exposure on/off: outcome refused / dropped / routed(+env) vs Model.Perm.remoteSpawn/remoteAppStart.

func init() { c15parts = append(c15parts, runC15Flags) }

type quietLog struct{}

func (quietLog) Level() gen.LogLevel         { return gen.LogLevelDisabled }
func (quietLog) SetLevel(gen.LogLevel) error { return nil }
func (quietLog) Logger() string              { return "" }
func (quietLog) SetLogger(string)            {}
func (quietLog) Fields() []gen.LogField      { return nil }
func (quietLog) AddFields(...gen.LogField)   {}
func (quietLog) DeleteFields(...string)      {}
func (quietLog) PushFields() int             { return 0 }
func (quietLog) PopFields() int              { return 0 }
func (quietLog) Trace(string, ...any)        {}
func (quietLog) Debug(string, ...any)        {}
func (quietLog) Info(string, ...any)         {}
func (quietLog) Warning(string, ...any)      {}
func (quietLog) Error(string, ...any)        {}
func (quietLog) Panic(string, ...any)        {}

type flagCore struct {
	gen.Core
	name gen.Atom
	sec  gen.SecurityOptions
	env  map[gen.Env]any
	mu   sync.Mutex
	uniq uint64
	got  []string // "spawn <name> <source> <env keys>" / "app <name> <source> <env keys>"
}

func (c *flagCore) Name() gen.Atom                { return c.name }
func (c *flagCore) Creation() int64               { return 100 }
func (c *flagCore) PID() gen.PID                  { return gen.PID{Node: c.name, ID: 1, Creation: 100} }
func (c *flagCore) LogLevel() gen.LogLevel        { return gen.LogLevelDisabled }
func (c *flagCore) Security() gen.SecurityOptions { return c.sec }
func (c *flagCore) EnvList() map[gen.Env]any      { return c.env }
func (c *flagCore) MakeRef() gen.Ref {
	c.mu.Lock()
	defer c.mu.Unlock()
	c.uniq++
	return gen.Ref{Node: c.name, Creation: 100, ID: [3]uint64{c.uniq, 7, 0}}
}
func envKeys(m map[gen.Env]any) string {
	var ks []string
	for k := range m {
		ks = append(ks, string(k))
	}
	sort.Strings(ks)
	if len(ks) == 0 {
		return "-"
	}
	return strings.Join(ks, ",")
}
func (c *flagCore) RouteSpawn(node gen.Atom, name gen.Atom, options gen.ProcessOptionsExtra, source gen.Atom) (gen.PID, error) {
	c.mu.Lock()
	c.got = append(c.got, fmt.Sprintf("spawn %s %s %s", string(name), string(source), envKeys(options.ParentEnv)))
	c.mu.Unlock()
	return gen.PID{Node: c.name, ID: 1234, Creation: 100}, nil
}
func (c *flagCore) RouteApplicationStart(name gen.Atom, mode gen.ApplicationMode, options gen.ApplicationOptionsExtra, source gen.Atom) error {
	c.mu.Lock()
	c.got = append(c.got, fmt.Sprintf("app %s %s %s", string(name), string(source), envKeys(options.CoreEnv)))
	c.mu.Unlock()
	return nil
}
func (c *flagCore) RouteNodeDown(gen.Atom, error) {}

func flagsFrom3(e, s, a bool) gen.NetworkFlags {
	f := gen.NetworkFlags{Enable: e, EnableRemoteSpawn: s, EnableRemoteApplicationStart: a}
	if e {
		f.EnableImportantDelivery = true
	}
	return f
}

func runC15Flags(c *Ctx) {
	r := c.R
	type fcase struct {
		Peer, Node string
		App        bool
		Expose     bool
	}
	var lines, impl []string
	var cases []fcase
	lines = append(lines, "reset", "es 0 1 -", "ea 0 -")
	impl = append(impl, "ok", "ok", "ok")
	cases = append(cases, fcase{}, fcase{}, fcase{})
	bits := []bool{false, true}
	type job struct {
		pf, nf      gen.NetworkFlags
		app, expose bool
		got         string
	}
	var jobs []*job
	n := 0
	for _, pe := range bits {
		for _, ps := range bits {
			for _, pa := range bits {
				for _, ne := range bits {
					for _, ns := range bits {
						for _, na := range bits {
							for _, app := range bits {
								n++
								// quick tier: every flag combination once per request kind, exposure alternating
								expose := n%2 == 0
								if c.Thorough() {
									expose = c.Rng.Bool()
								}
								jobs = append(jobs, &job{pf: flagsFrom3(pe, ps, pa), nf: flagsFrom3(ne, ns, na), app: app, expose: expose})
							}
						}
					}
				}
			}
		}
	}
	// all cases run concurrently (each on its own pair of connections): a request the receiver drops is only
	// recognisable by the absence of any effect, so the waiting time is paid once, not per case
	var wg sync.WaitGroup
	sem := make(chan struct{}, 32)
	for _, j := range jobs {
		wg.Add(1)
		go func(j *job) {
			defer wg.Done()
			sem <- struct{}{}
			j.got = flagRequest(j.pf, j.nf, j.app, j.expose, 1500*time.Millisecond)
			<-sem
		}(j)
	}
	wg.Wait()
	for _, j := range jobs {
		pf, nf, app, expose, got := j.pf, j.nf, j.app, j.expose, j.got
		fc := fcase{flags3(pf), flags3(nf), app, expose}
		kind := "rs"
		if app {
			kind = "ra"
		}
		lines = append(lines, fmt.Sprintf("%s %s %s 0 0 %d 1,2", kind, fc.Peer, fc.Node, b2i(expose)))
		impl = append(impl, got)
		cases = append(cases, fc)
		r.Case(fmt.Sprintf("flags:%+v", fc), true)
		r.Count("flags." + kind + "." + strings.Fields(got)[0])
		// independent oracle: routed only if neither end's flags refuse; env iff exposure
		refuse := func(f gen.NetworkFlags) bool {
			if app {
				return f.Enable && !f.EnableRemoteApplicationStart
			}
			return f.Enable && !f.EnableRemoteSpawn
		}
		routed := strings.HasPrefix(got, "spawned") || strings.HasPrefix(got, "started")
		if routed && (refuse(pf) || refuse(nf)) {
			r.Violation("C15/flags-not-enforced", fmt.Sprintf("request executed although the flags refuse it: %+v -> %s", fc, got), fc)
		}
		if routed && expose != strings.HasSuffix(got, "1,2") {
			r.Violation("C15/env-exposure", fmt.Sprintf("exposure=%v but the request carried env %q", expose, got), fc)
		}
	}
	out, err := Model("perm", lines)
	if err != nil {
		r.Disagree("c15-flags-model", err.Error(), nil)
		return
	}
	for i := range lines {
		if out[i] != impl[i] && impl[i] == "dropped" && i >= 3 {
			// "dropped" is a time-out verdict: retry this case alone with a long wait before reporting
			j := jobs[i-3]
			impl[i] = flagRequest(j.pf, j.nf, j.app, j.expose, 6*time.Second)
			r.Count("flags.retried-alone")
		}
		if out[i] != impl[i] {
			r.Disagree("c15-flags", fmt.Sprintf("%q: model %q, implementation %q", lines[i], out[i], impl[i]), cases[i])
			return
		}
	}
}

// flagRequest performs one remote spawn / application start between two fresh proto connections.
func flagRequest(peerFlags, nodeFlags gen.NetworkFlags, app, expose bool, wait time.Duration) string {
	reqCore := &flagCore{name: "req@h", env: map[gen.Env]any{"K1": "v1", "K2": "v2"},
		sec: gen.SecurityOptions{ExposeEnvRemoteSpawn: expose != app, ExposeEnvRemoteApplicationStart: expose == app}}
	rcvCore := &flagCore{name: "rcv@h"}
	mk := func(core gen.Core, peer gen.Atom, pf, nf gen.NetworkFlags) (gen.Connection, error) {
		res := gen.HandshakeResult{ConnectionID: "id", Peer: peer, PeerCreation: 100, PeerFlags: pf, NodeFlags: nf,
			Custom: handshake.ConnectionOptions{PoolSize: 1}}
		return proto.Create().NewConnection(core, res, quietLog{})
	}
	// the requester's own flags / the receiver's view of the requester do not matter for these requests
	rq, err1 := mk(reqCore, "rcv@h", peerFlags, gen.DefaultNetworkFlags)
	rc, err2 := mk(rcvCore, "req@h", gen.DefaultNetworkFlags, nodeFlags)
	if err1 != nil || err2 != nil {
		return fmt.Sprintf("setup-error %v %v", err1, err2)
	}
	a, b := net.Pipe()
	rq.Join(a, "id", nil, nil)
	rc.Join(b, "id", nil, nil)
	defer func() {
		rq.Terminate(gen.TerminateReasonNormal)
		rc.Terminate(gen.TerminateReasonNormal)
		a.Close()
		b.Close()
	}()
	type res struct {
		err error
	}
	ch := make(chan res, 1)
	go func() {
		if app {
			ch <- res{rq.Node().ApplicationStart("name0", gen.ApplicationOptions{})}
		} else {
			_, e := rq.Node().Spawn("name0", gen.ProcessOptions{})
			ch <- res{e}
		}
	}()
	timer := time.After(wait)
again:
	select {
	case x := <-ch:
		rcvCore.mu.Lock()
		got := append([]string(nil), rcvCore.got...)
		rcvCore.mu.Unlock()
		if x.err == gen.ErrNotAllowed && len(got) == 0 {
			return "refused"
		}
		// (the reply of an executed request can get lost: connection.handleMessage hands a MessageResult over with a
		// non-blocking send on an unbuffered channel, so a reply that arrives before the requester reaches waitResult is
		// dropped and the request times out after 5 s although it was executed — seen with the in-memory transport on a
		// loaded machine; not a C15 matter: what counts here is whether the receiver executed the request)
		if (x.err == nil || x.err == gen.ErrTimeout) && len(got) == 1 {
			f := strings.Fields(got[0])
			env := "-"
			if f[3] == "K1,K2" {
				env = "1,2"
			} else if f[3] != "-" {
				env = "9"
			}
			if f[2] != "req@h" {
				return "routed-with-wrong-source " + f[2]
			}
			if app {
				return "started " + env
			}
			return "spawned 1 " + env
		}
		return fmt.Sprintf("unexpected err=%v routed=%v", x.err, got)
	case <-timer:
		rcvCore.mu.Lock()
		n := len(rcvCore.got)
		rcvCore.mu.Unlock()
		if n == 0 {
			return "dropped"
		}
		// the receiver's core was called: the reply is on its way (slow machine); the request itself times out after 5 s
		timer = time.After(8 * time.Second)
		wait = 0
		goto again
	}
}
